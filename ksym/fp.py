"""Bit-precise IEEE values (z3 FP theory) for the few kernels where float32 vs float64 matters."""
from __future__ import annotations

from typing import Any

import z3

from . import engine as K

RNE = z3.RNE()
F32, F64 = z3.Float32(), z3.Float64()


class FPVal:
    __slots__ = ("t",)

    def __init__(self, t: Any):
        self.t = t

    @staticmethod
    def of(x: Any, sort: Any = F64) -> "FPVal":
        if isinstance(x, FPVal):
            return x.to(sort)
        if isinstance(x, (int, float)):
            return FPVal(z3.FPVal(float(x), sort))
        if isinstance(x, K.SInt):
            return FPVal(z3.fpSignedToFP(RNE, z3.Int2BV(x.t, 64), sort))
        raise K.HarnessError(f"cannot convert {x!r} to FP")

    def sort(self) -> Any:
        return self.t.sort()

    def to(self, sort: Any) -> "FPVal":
        if self.t.sort() == sort:
            return self
        return FPVal(z3.fpFPToFP(RNE, self.t, sort))

    def _bin(self, o: Any, f: Any, rev: bool = False) -> "FPVal":
        # C promotion: float32 (op) double -> double ; Python floats are doubles
        osort = F64 if not isinstance(o, FPVal) else o.sort()
        wide = F64 if (self.sort() == F64 or osort == F64) else F32
        a, b = self.to(wide).t, FPVal.of(o, wide).t
        if rev:
            a, b = b, a
        return FPVal(f(RNE, a, b))

    def __truediv__(self, o: Any) -> "FPVal":
        return self._bin(o, z3.fpDiv)

    def __rtruediv__(self, o: Any) -> "FPVal":
        return self._bin(o, z3.fpDiv, True)

    def __add__(self, o: Any) -> "FPVal":
        return self._bin(o, z3.fpAdd)

    __radd__ = __add__

    def __sub__(self, o: Any) -> "FPVal":
        return self._bin(o, z3.fpSub)

    def __mul__(self, o: Any) -> "FPVal":
        return self._bin(o, z3.fpMul)

    __rmul__ = __mul__

    def __eq__(self, o: Any) -> Any:  # type: ignore[override]
        return K.SBool(z3.fpEQ(self.to(F64).t, FPVal.of(o, F64).t))

    def __ne__(self, o: Any) -> Any:  # type: ignore[override]
        return K.SBool(z3.Not(z3.fpEQ(self.to(F64).t, FPVal.of(o, F64).t)))

    __hash__ = None  # type: ignore[assignment]


def kfloat_fp(x: Any = 0.0) -> Any:
    if isinstance(x, (FPVal, K.SInt)):
        return FPVal.of(x, F64)
    return float(x)
