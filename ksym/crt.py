"""Runtimes for transliterated .pyx code: concrete (validation grid) and symbolic (ksym)."""
from __future__ import annotations

import struct
from typing import Any

import z3

from . import engine as K

I32_MIN, I32_MAX = -(2**31), 2**31 - 1
I64_MIN, I64_MAX = -(2**63), 2**63 - 1


def f32(x: float) -> float:
    return struct.unpack("f", struct.pack("f", x))[0]


def _trunc_div(a: int, b: int) -> int:
    q = abs(a) // abs(b)
    return q if (a >= 0) == (b >= 0) else -q


class ConcreteRT:
    """C semantics on Python numbers; records events that are undefined/implementation-defined in C"""

    def __init__(self) -> None:
        self.flags: list[str] = []

    def _wrap(self, v: int, ct: str, what: str) -> int:
        lo, hi, bits = (I32_MIN, I32_MAX, 32) if ct != "long" else (I64_MIN, I64_MAX, 64)
        if not lo <= v <= hi:
            self.flags.append(f"overflow:{what}")
            v = (v - lo) % (1 << bits) + lo
        return v

    def param(self, ct: str, v: Any, name: str) -> Any:
        if ct in ("int", "long"):
            lo, hi = (I32_MIN, I32_MAX) if ct == "int" else (I64_MIN, I64_MAX)
            v = int(v)
            if not lo <= v <= hi:
                raise OverflowError(f"value too large to convert to {ct}")
            return v
        if ct == "bint":
            return bool(v)
        if ct == "double":
            return float(v)
        if ct == "float":
            return f32(float(v))
        return v

    def store(self, ct: str, v: Any, name: str) -> Any:
        if ct in ("int", "long"):
            if isinstance(v, float):
                raise TypeError("float stored to C int without cast")
            return self._wrap(int(v), ct, name)
        if ct == "bint":
            return bool(v)
        if ct == "double":
            return float(v)
        if ct == "float":
            return f32(float(v))
        return v

    def cast(self, ct: str, v: Any) -> Any:
        if ct in ("int", "long"):
            if isinstance(v, float):
                if v != v or not (I32_MIN - 1 < v < I32_MAX + 1 if ct == "int" else I64_MIN - 1 < v < I64_MAX + 1):
                    self.flags.append("cast-out-of-range")
                    return I32_MIN if ct == "int" else I64_MIN  # what x86 cvttsd2si yields
                return int(v)
            return self._wrap(int(v), ct, "cast")
        if ct == "double":
            return float(v)
        if ct == "float":
            return f32(float(v))
        if ct == "bint":
            return bool(v)
        return v

    def iop(self, op: str, wide: str, a: Any, b: Any) -> Any:
        a, b = int(a), int(b)
        v = a + b if op == "+" else a - b if op == "-" else a * b
        return self._wrap(v, wide, f"{op}")

    def f32op(self, op: str, a: Any, b: Any) -> Any:
        a, b = f32(float(a)), f32(float(b))
        v = a + b if op == "+" else a - b if op == "-" else a * b if op == "*" else a / b
        return f32(v)

    def cdiv(self, a: Any, b: Any) -> Any:
        return _trunc_div(int(a), int(b))

    def cmod(self, a: Any, b: Any) -> Any:
        a, b = int(a), int(b)
        return a - b * _trunc_div(a, b)

    def pymod(self, a: Any, b: Any) -> Any:
        return a % b

    def pyfloordiv(self, a: Any, b: Any) -> Any:
        return a // b

    def ret(self, ct: str, v: Any) -> Any:
        return self.store(ct, v, "return")


def _dbl(v: Any) -> Any:
    from .fp import FPVal, F64

    if isinstance(v, FPVal):
        return v.to(F64)
    if K.eng().fp_precise and isinstance(v, K.SInt):
        return FPVal.of(v, F64)
    return K.kfloat(v)


class SymbolicRT:
    """C semantics on ksym values.  Every C-int store/operation is a proof obligation
    'no overflow'; a violated obligation is recorded (a divergence candidate: Python ints do not
    wrap) and the path continues under the assumption that it fits."""

    def __init__(self) -> None:
        self.float32_seen = False

    def _fit(self, v: Any, ct: str, what: str) -> Any:
        if isinstance(v, bool):
            return int(v)
        if isinstance(v, int):
            lo, hi = (I32_MIN, I32_MAX) if ct != "long" else (I64_MIN, I64_MAX)
            if not lo <= v <= hi:
                raise K.HarnessError(f"concrete C overflow in {what}")
            return v
        if isinstance(v, K.SBool):
            return K.kint(v)
        if isinstance(v, K.SInt):
            lo, hi = (I32_MIN, I32_MAX) if ct != "long" else (I64_MIN, I64_MAX)
            e = K.eng()
            inr = z3.And(v.t >= lo, v.t <= hi)
            e.check(inr, f"c-overflow:{ct}:{what}")
            e.solver.add(inr)
            return v
        raise K.HarnessError(f"non-integer value {v!r} reaches C {ct} {what}")

    def param(self, ct: str, v: Any, name: str) -> Any:
        if ct in ("int", "long"):
            return self._fit(v, ct, f"param {name}")
        if ct == "bint":
            return K.kbool(v)
        if ct == "double":
            return _dbl(v)
        if ct == "float":
            raise K.HarnessError("float32 parameters not modelled")
        return v

    def store(self, ct: str, v: Any, name: str) -> Any:
        if ct in ("int", "long"):
            if isinstance(v, (float, K.SFloat)):
                raise K.HarnessError("double stored to C int without cast")
            return self._fit(v, ct, name)
        if ct == "bint":
            return K.kbool(v)
        if ct == "double":
            return _dbl(v)
        if ct == "float":
            from .fp import FPVal, F32

            return FPVal.of(v, F32)
        return v

    def cast(self, ct: str, v: Any) -> Any:
        if ct in ("int", "long"):
            if isinstance(v, (float, K.SFloat)):
                return self._fit(K.kint(v), ct, "cast from double")
            return self._fit(v, ct, "cast")
        if ct == "double":
            return _dbl(v)
        if ct == "float":
            from .fp import FPVal, F32

            return FPVal.of(v, F32)
        if ct == "bint":
            return K.kbool(v)
        return v

    def iop(self, op: str, wide: str, a: Any, b: Any) -> Any:
        if isinstance(a, K.SBool):
            a = K.kint(a)
        if isinstance(b, K.SBool):
            b = K.kint(b)
        v = a + b if op == "+" else a - b if op == "-" else a * b
        return self._fit(v, wide, f"operator {op}")

    def f32op(self, op: str, a: Any, b: Any) -> Any:
        raise K.HarnessError("float32 arithmetic not modelled symbolically")

    def cdiv(self, a: Any, b: Any) -> Any:
        if isinstance(a, int) and isinstance(b, int):
            return _trunc_div(a, b)
        return K.SInt(K.c_div(K._it(a), K._it(b)))

    def cmod(self, a: Any, b: Any) -> Any:
        if isinstance(a, int) and isinstance(b, int):
            return a - b * _trunc_div(a, b)
        return K.SInt(z3.simplify(K.c_mod(K._it(a), K._it(b))))

    def pymod(self, a: Any, b: Any) -> Any:
        return a % b

    def pyfloordiv(self, a: Any, b: Any) -> Any:
        return a // b

    def ret(self, ct: str, v: Any) -> Any:
        return self.store(ct, v, "return")
