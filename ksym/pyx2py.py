"""Mechanical transliteration of the repo's .pyx files into Python with C semantics.

Regenerated from the current text of /repo/scriptplan/_cython/*.pyx on every run.  Anything the
rewriter does not recognise raises TranslitError naming the line - never a guess.

The produced module calls a small runtime ("rt") for everything whose meaning differs between
C and Python:  rt.store(ctype, value, name)  for stores into C-typed locals/params (32-bit int
range obligation), rt.cast(ctype, value), rt.cdiv / rt.cmod (truncating, when the file header
says cdivision=True), rt.ret(ctype, value) for typed returns, rt.truth(x) for bint.
"""
from __future__ import annotations

import ast
import re
from typing import Any

CTYPES = {"int", "double", "float", "bint", "object", "list", "dict", "tuple", "long"}
NUM_INT = {"int", "long", "bint"}


class TranslitError(Exception):
    pass


_CAST = re.compile(r"<\s*(\w+)\s*>\s*(\((?:[^()]|\((?:[^()]|\([^()]*\))*\))*\)|[A-Za-z_][\w.]*|\d[\w.]*)")


def _rewrite_casts(line: str, lineno: int) -> str:
    prev = None
    while prev != line:
        prev = line
        line = _CAST.sub(lambda m: f"__rt.cast('{m.group(1)}', {m.group(2)})", line)
    if re.search(r"<\s*\w+\s*>", line.split("#")[0]) and "->" not in line:
        raise TranslitError(f"line {lineno}: unrecognised cast in {line!r}")
    return line


def transliterate(src: str, name: str = "<pyx>") -> tuple[str, dict[str, Any]]:
    """returns (python_source, info) ; info: cdivision flag, functions with their C types"""
    # 'long long' (and 'long', 64-bit on the LP64 targets the extensions are built for) -> ctype 'long'
    src = re.sub(r"\blong\s+long\b", "long", src)
    lines = src.split("\n")
    cdivision = any(re.match(r"#\s*cython:\s*cdivision\s*=\s*True", l) for l in lines[:20])
    out: list[str] = []
    funcs: dict[str, dict[str, Any]] = {}
    cur: dict[str, Any] | None = None
    in_sig = False
    i = 0
    while i < len(lines):
        raw = lines[i]
        ln = i + 1
        i += 1
        s = raw.strip()
        indent = raw[: len(raw) - len(raw.lstrip())]
        if re.match(r"(from\s+\S+\s+cimport\b|cimport\b)", s) or s == "import cython":
            out.append(indent + "pass  # " + s if indent else "# " + s)
            continue
        if s.startswith("@cython."):
            out.append(indent + "# " + s)
            continue
        m = re.match(r"(cpdef|cdef|def)\s+(?:(\w+)\s+)?(\w+)\s*\((.*)$", s)
        if m and (m.group(1) in ("cpdef",) or (m.group(1) == "def" and indent == "")) and not (
            m.group(1) == "cdef"
        ):
            kind, rtype, fname, rest = m.groups()
            if kind == "def" and rtype is not None:
                raise TranslitError(f"line {ln}: unexpected def form {s!r}")
            cur = {"name": fname, "ret": rtype or "object", "types": {}, "params": []}
            funcs[fname] = cur
            sig = rest
            # gather the full signature up to the closing "):" possibly with "-> type"
            while not re.search(r"\)\s*(->\s*[\w.]+\s*)?:\s*$", sig):
                if i >= len(lines):
                    raise TranslitError(f"line {ln}: unterminated signature")
                sig += " " + lines[i].strip()
                i += 1
            mm = re.match(r"(.*)\)\s*(?:->\s*([\w.]+)\s*)?:\s*$", sig)
            assert mm
            params_s, arrow = mm.groups()
            if arrow:
                cur["ret"] = arrow.split(".")[-1]
            params = [p.strip() for p in params_s.split(",") if p.strip()]
            names = []
            for p in params:
                pm = re.match(r"(?:(\w+)\s+)?(\w+)$", p)
                if not pm:
                    raise TranslitError(f"line {ln}: unrecognised parameter {p!r}")
                ct, pn = pm.groups()
                ct = ct or "object"
                if ct not in CTYPES:
                    raise TranslitError(f"line {ln}: unknown C type {ct!r}")
                cur["types"][pn] = ct
                cur["params"].append(pn)
                names.append(pn)
            if cur["ret"] not in CTYPES:
                raise TranslitError(f"line {ln}: unknown return type {cur['ret']!r}")
            out.append(f"{indent}def {fname}({', '.join(names)}):")
            # parameter conversion (what the generated wrapper does on entry)
            body_indent = indent + "    "
            for pn in names:
                ct = cur["types"][pn]
                if ct != "object":
                    out.append(f"{body_indent}{pn} = __rt.param('{ct}', {pn}, '{pn}')")
            continue
        if s.startswith("cdef "):
            if cur is None:
                raise TranslitError(f"line {ln}: cdef outside function: {s!r}")
            dm = re.match(r"cdef\s+(\w+)\s+(.*)$", s)
            if not dm or dm.group(1) not in CTYPES:
                raise TranslitError(f"line {ln}: unrecognised cdef {s!r}")
            ct, rest = dm.groups()
            if "=" in rest:
                vn, val = [x.strip() for x in rest.split("=", 1)]
                if not re.match(r"\w+$", vn):
                    raise TranslitError(f"line {ln}: unrecognised cdef {s!r}")
                cur["types"][vn] = ct
                out.append(f"{indent}{vn} = {_rewrite_casts(val, ln)}")
            else:
                for vn in [x.strip() for x in rest.split(",")]:
                    if not re.match(r"\w+$", vn):
                        raise TranslitError(f"line {ln}: unrecognised cdef {s!r}")
                    cur["types"][vn] = ct
                out.append(f"{indent}pass")
            continue
        if re.match(r"(cdef|cpdef|ctypedef|cimport|nogil|with\s+nogil)", s):
            raise TranslitError(f"line {ln}: unsupported Cython construct {s!r}")
        out.append(_rewrite_casts(raw, ln))
    py = "\n".join(out)
    try:
        tree = ast.parse(py)
    except SyntaxError as e:
        raise TranslitError(f"{name}: transliteration is not valid Python: {e}") from e
    tree = _Typed(funcs, cdivision).visit(tree)
    ast.fix_missing_locations(tree)
    return ast.unparse(tree), {"cdivision": cdivision, "functions": funcs}


class _Typed(ast.NodeTransformer):
    def __init__(self, funcs: dict[str, dict[str, Any]], cdivision: bool):
        self.funcs = funcs
        self.cdiv = cdivision
        self.cur: dict[str, Any] | None = None

    def visit_FunctionDef(self, node: ast.FunctionDef) -> Any:
        prev = self.cur
        self.cur = self.funcs.get(node.name)
        self.generic_visit(node)
        self.cur = prev
        return node

    # static C type of an expression: 'int', 'double', 'float', 'bint' or None (Python object)
    def ctype(self, e: ast.AST) -> str | None:
        t = self.cur["types"] if self.cur else {}
        if isinstance(e, ast.Name):
            ct = t.get(e.id)
            return ct if ct in ("int", "long", "double", "float", "bint") else None
        if isinstance(e, ast.Constant):
            if isinstance(e.value, bool):
                return "bint"
            if isinstance(e.value, int):
                return "int"
            if isinstance(e.value, float):
                return "double"
            return None
        if isinstance(e, ast.UnaryOp) and isinstance(e.op, (ast.USub, ast.UAdd)):
            return self.ctype(e.operand)
        if isinstance(e, ast.BinOp):
            a, b = self.ctype(e.left), self.ctype(e.right)
            if a is None or b is None:
                return None
            if "double" in (a, b):
                return "double"
            if "float" in (a, b):
                return "float"
            if isinstance(e.op, ast.Div):
                return "double"  # language_level=3: true division of C ints yields double
            return "long" if "long" in (a, b) else "int"
        if isinstance(e, ast.Call) and isinstance(e.func, ast.Attribute) and isinstance(e.func.value, ast.Name) \
                and e.func.value.id == "__rt":
            if e.func.attr == "cast" and isinstance(e.args[0], ast.Constant):
                ct = e.args[0].value
                return ct if ct in ("int", "long", "double", "float", "bint") else None
            if e.func.attr in ("cdiv", "cmod", "iop"):
                return "int"
        if isinstance(e, ast.Call) and isinstance(e.func, ast.Name) and e.func.id == "len":
            return "long"
        return None

    def visit_BinOp(self, node: ast.BinOp) -> Any:
        self.generic_visit(node)
        a, b = self.ctype(node.left), self.ctype(node.right)
        if a in NUM_INT and b in NUM_INT:
            wide = "long" if "long" in (a, b) else "int"
            if isinstance(node.op, ast.Mod):
                fn = "cmod" if self.cdiv else "pymod"
                return _call(fn, [node.left, node.right])
            if isinstance(node.op, ast.FloorDiv):
                fn = "cdiv" if self.cdiv else "pyfloordiv"
                return _call(fn, [node.left, node.right])
            if isinstance(node.op, (ast.Add, ast.Sub, ast.Mult)):
                # arithmetic on two C ints is carried out in C int: overflow obligation
                op = {ast.Add: "+", ast.Sub: "-", ast.Mult: "*"}[type(node.op)]
                return _call("iop", [ast.Constant(op), ast.Constant(wide), node.left, node.right])
        if (a == "float" or b == "float") and a in ("float", "int", "long", "bint") and b in ("float", "int", "long", "bint"):
            op = {ast.Add: "+", ast.Sub: "-", ast.Mult: "*", ast.Div: "/"}.get(type(node.op))
            if op is None:
                raise TranslitError("unsupported float32 operator")
            return _call("f32op", [ast.Constant(op), node.left, node.right])
        return node

    def _store(self, name: str, value: ast.expr) -> ast.expr:
        ct = (self.cur["types"] if self.cur else {}).get(name)
        if ct and ct != "object":
            return _call("store", [ast.Constant(ct), value, ast.Constant(name)])
        return value

    def visit_Assign(self, node: ast.Assign) -> Any:
        self.generic_visit(node)
        if len(node.targets) == 1 and isinstance(node.targets[0], ast.Name):
            tn = node.targets[0].id
            if isinstance(node.value, ast.Call) and isinstance(node.value.func, ast.Attribute) and \
                    isinstance(node.value.func.value, ast.Name) and node.value.func.value.id == "__rt" and \
                    node.value.func.attr == "param":
                return node
            node.value = self._store(tn, node.value)
        return node

    def visit_AugAssign(self, node: ast.AugAssign) -> Any:
        self.generic_visit(node)
        if isinstance(node.target, ast.Name):
            tn = node.target.id
            ct = (self.cur["types"] if self.cur else {}).get(tn)
            if ct and ct != "object":
                binop = ast.BinOp(left=ast.Name(tn, ast.Load()), op=node.op, right=node.value)
                new = self.visit_BinOp(binop) if not isinstance(binop, ast.Call) else binop
                return ast.Assign(targets=[ast.Name(tn, ast.Store())], value=self._store(tn, new))
        return node

    def visit_Return(self, node: ast.Return) -> Any:
        self.generic_visit(node)
        if self.cur and self.cur["ret"] != "object" and node.value is not None:
            node.value = _call("ret", [ast.Constant(self.cur["ret"]), node.value])
        return node

    def visit_For(self, node: ast.For) -> Any:
        self.generic_visit(node)
        return node


def _call(fn: str, args: list[ast.expr]) -> ast.Call:
    return ast.Call(func=ast.Attribute(value=ast.Name("__rt", ast.Load()), attr=fn, ctx=ast.Load()), args=args, keywords=[])


def load_module(py_src: str, rt: Any, extra_globals: dict[str, Any] | None = None) -> dict[str, Any]:
    g: dict[str, Any] = {"__rt": rt, "__name__": "pyx_translit"}
    if extra_globals:
        g.update(extra_globals)
    exec(compile(py_src, "<pyx transliteration>", "exec"), g)
    return g
