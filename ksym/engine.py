"""ksym - a small symbolic executor for arithmetic kernels of /repo.

Values are thin wrappers over z3 Int/Real/Bool terms with operator overloading.  ``__bool__``
on a symbolic condition asks z3 whether both outcomes are feasible under the current path
condition and forks by *re-execution with a recorded decision prefix* (DFS until the tree is
exhausted).  The wrappers deliberately do not subclass int/float: a C-level consumer raises
TypeError, which is reported as a harness error, never silently concretised.

Time is integer seconds: MTime(offset) / MDelta(seconds).  One IEEE-754 division a / b of
integer-valued doubles is modelled as  exact + d,  |d| <= 2**-20  (sound for |exact| < 2**32,
asserted as a side condition), d = 0 when b divides a.
"""
from __future__ import annotations

import time
from fractions import Fraction
from typing import Any, Callable, Optional

import z3


class HarnessError(Exception):
    pass


class BoundExceeded(Exception):
    pass


class Infeasible(Exception):
    pass


_ENGINE: Optional["Engine"] = None


def eng() -> "Engine":
    if _ENGINE is None:
        raise HarnessError("no active ksym engine")
    return _ENGINE


class Engine:
    def __init__(self, solver_timeout_ms: int = 20000, max_paths: int = 200000, max_decisions: int = 400):
        self.solver = z3.Solver()
        self.solver.set("timeout", solver_timeout_ms)
        self.prefix: list[list[bool]] = []
        self.pos = 0
        self.paths = 0
        self.queries = 0
        self.solver_s = 0.0
        self.unknowns = 0
        self.max_paths = max_paths
        self.max_decisions = max_decisions
        self.violations: list[dict] = []
        self.checks = 0
        self.checks_unsat = 0
        self.inputs: dict[str, Any] = {}
        self._n = 0
        self.path_samples: list[dict] = []
        self.bound_exceeded = 0
        self.exhausted = False
        self.nontrivial_paths = 0
        self.fp_precise = False  # divisions are carried out bit-precisely in the z3 FP theory
        self.deadline: Optional[float] = None  # wall-clock instant after which TimeoutError ends the exploration

    # ---- variables -------------------------------------------------------------------
    def _name(self, base: str) -> str:
        self._n += 1
        return f"{base}!{self._n}"

    def int_var(self, name: str, lo: Optional[int] = None, hi: Optional[int] = None) -> "SInt":
        v = z3.Int(name)
        self.inputs[name] = v
        if lo is not None:
            self.solver.add(v >= _it(lo))
        if hi is not None:
            self.solver.add(v <= _it(hi))
        return SInt(v)

    def bool_var(self, name: str) -> "SBool":
        v = z3.Bool(name)
        self.inputs[name] = v
        return SBool(v)

    def fresh_real(self, base: str = "r") -> z3.ArithRef:
        return z3.Real(self._name(base))

    def assume(self, cond: Any) -> None:
        self.solver.add(_b(cond))

    # ---- solver ----------------------------------------------------------------------
    def _check(self, *extra: Any) -> str:
        if self.deadline is not None and time.time() > self.deadline:
            raise TimeoutError()
        t0 = time.perf_counter()
        self.queries += 1
        r = self.solver.check(*extra)
        self.solver_s += time.perf_counter() - t0
        s = str(r)
        if s == "unknown":
            self.unknowns += 1
        return s

    def decide(self, cond: z3.BoolRef) -> bool:
        cond = z3.simplify(cond)
        if z3.is_true(cond):
            return True
        if z3.is_false(cond):
            return False
        if self.pos < len(self.prefix):
            d = self.prefix[self.pos][0]
        else:
            if self.pos >= self.max_decisions:
                self.bound_exceeded += 1
                raise BoundExceeded(f"more than {self.max_decisions} decisions on one path")
            rt = self._check(cond)
            rf = self._check(z3.Not(cond))
            can_t = rt != "unsat"
            can_f = rf != "unsat"
            if can_t and can_f:
                d = True
                self.prefix.append([True, True])
            elif can_t:
                d = True
                self.prefix.append([True, False])
            elif can_f:
                d = False
                self.prefix.append([False, False])
            else:
                raise Infeasible()
        self.pos += 1
        self.solver.add(cond if d else z3.Not(cond))
        return d

    def check(self, prop: Any, label: str, info: Optional[Callable[[z3.ModelRef], dict]] = None) -> bool:
        """Proof obligation on the current path: path_condition => prop."""
        self.checks += 1
        p = _b(prop)
        r = self._check(z3.Not(p))
        if r == "unsat":
            self.checks_unsat += 1
            return True
        if r == "sat":
            m = self.solver.model()
            cex = {k: _mval(m, v) for k, v in self.inputs.items()}
            rec = {"label": label, "inputs": cex}
            if info is not None:
                try:
                    rec["info"] = info(m)
                except Exception as e:  # pragma: no cover
                    rec["info"] = f"<{e}>"
            self.violations.append(rec)
            return False
        return False  # unknown: counted in self.unknowns

    def explore(self, fn: Callable[["Engine"], None], stop_on_violation: bool = False) -> None:
        global _ENGINE
        _ENGINE = self
        self.exhausted = False
        try:
            while True:
                self.solver.push()
                self.pos = 0
                self._n = 0
                self.inputs = {}
                try:
                    fn(self)
                except Infeasible:
                    pass
                except BoundExceeded:
                    pass
                finally:
                    self.solver.pop()
                self.paths += 1
                if len(self.prefix) > 0:  # the path depends on at least one symbolic decision
                    self.nontrivial_paths += 1
                if len(self.path_samples) < 3:
                    self.path_samples.append({"decisions": [d for d, _ in self.prefix]})
                if stop_on_violation and self.violations:
                    return
                while self.prefix and not self.prefix[-1][1]:
                    self.prefix.pop()
                if not self.prefix:
                    self.exhausted = True
                    return
                self.prefix[-1] = [not self.prefix[-1][0], False]
                if self.paths >= self.max_paths:
                    return
        finally:
            _ENGINE = None


def _mval(m: z3.ModelRef, v: Any) -> Any:
    x = m.eval(v, model_completion=True)
    if z3.is_int_value(x):
        return x.as_long()
    if z3.is_true(x):
        return True
    if z3.is_false(x):
        return False
    if z3.is_rational_value(x):
        return float(Fraction(x.numerator_as_long(), x.denominator_as_long()))
    return str(x)


# ---- symbolic values ------------------------------------------------------------------

def _b(x: Any) -> z3.BoolRef:
    if isinstance(x, SBool):
        return x.t
    if isinstance(x, bool):
        return z3.BoolVal(x)
    if isinstance(x, z3.BoolRef):
        return x
    raise HarnessError(f"not a boolean: {x!r}")


def _is_num(x: Any) -> bool:
    return isinstance(x, (int, float, SInt, SFloat)) and not isinstance(x, bool)


def _it(x: Any) -> Optional[z3.ArithRef]:
    """integer term of an integer-valued operand, else None"""
    if isinstance(x, bool):
        return z3.IntVal(int(x))
    if isinstance(x, int):
        return z3.IntVal(x)
    if isinstance(x, SInt):
        return x.t
    if isinstance(x, float):
        return z3.IntVal(int(x)) if x == int(x) and abs(x) < 2**53 else None
    if isinstance(x, SFloat):
        return x.it
    return None


def _rt(x: Any) -> z3.ArithRef:
    """real term"""
    if isinstance(x, bool):
        return z3.RealVal(int(x))
    if isinstance(x, int):
        return z3.RealVal(x)
    if isinstance(x, float):
        fr = Fraction(x)
        return z3.RealVal(fr.numerator) / z3.RealVal(fr.denominator) if fr.denominator != 1 else z3.RealVal(fr.numerator)
    if isinstance(x, SInt):
        return z3.ToReal(x.t)
    if isinstance(x, SFloat):
        return x.t
    raise HarnessError(f"not numeric: {x!r}")


class SBool:
    __slots__ = ("t",)

    def __init__(self, t: z3.BoolRef):
        self.t = t

    def __bool__(self) -> bool:
        return eng().decide(self.t)

    def __and__(self, o: Any) -> "SBool":
        return SBool(z3.And(self.t, _b(o)))

    __rand__ = __and__

    def __or__(self, o: Any) -> "SBool":
        return SBool(z3.Or(self.t, _b(o)))

    __ror__ = __or__

    def __invert__(self) -> "SBool":
        return SBool(z3.Not(self.t))

    def __eq__(self, o: Any) -> "SBool":  # type: ignore[override]
        return SBool(self.t == _b(o))

    def __ne__(self, o: Any) -> "SBool":  # type: ignore[override]
        return SBool(self.t != _b(o))

    __hash__ = None  # type: ignore[assignment]

    def __repr__(self) -> str:
        return f"SBool({self.t})"


def _cmp(a: Any, b: Any, op: str) -> Any:
    ia, ib = _it(a), _it(b)
    if ia is not None and ib is not None:
        x, y = ia, ib
    else:
        x, y = _rt(a), _rt(b)
    if op == "<":
        return SBool(x < y)
    if op == "<=":
        return SBool(x <= y)
    if op == ">":
        return SBool(x > y)
    if op == ">=":
        return SBool(x >= y)
    if op == "==":
        return SBool(x == y)
    return SBool(x != y)


def py_floordiv(x: z3.ArithRef, y: z3.ArithRef) -> z3.ArithRef:
    # floor(x / y): for y > 0 z3 Euclidean div == floor; for y < 0: floor(x/y) = floor((-x)/(-y))
    return z3.If(y > 0, x / y, (-x) / (-y))


def py_mod(x: z3.ArithRef, y: z3.ArithRef) -> z3.ArithRef:
    return x - y * py_floordiv(x, y)


def c_div(x: z3.ArithRef, y: z3.ArithRef) -> z3.ArithRef:
    """C truncating division"""
    ax = z3.If(x >= 0, x, -x)
    ay = z3.If(y >= 0, y, -y)
    q = ax / ay
    return z3.If((x >= 0) == (y >= 0), q, -q)


def c_mod(x: z3.ArithRef, y: z3.ArithRef) -> z3.ArithRef:
    return x - y * c_div(x, y)


class SInt:
    """mathematical integer (Python int)"""

    __slots__ = ("t",)

    def __init__(self, t: Any):
        self.t = z3.IntVal(t) if isinstance(t, int) else t

    # arithmetic
    def _bin(self, o: Any, f: Callable, rev: bool = False) -> Any:
        if not _is_num(o):
            return NotImplemented
        io = _it(o)
        if io is not None and not isinstance(o, (float, SFloat)):
            a, b = (io, self.t) if rev else (self.t, io)
            return SInt(z3.simplify(f(a, b)))
        a, b = (_rt(o), z3.ToReal(self.t)) if rev else (z3.ToReal(self.t), _rt(o))
        ii = None
        if io is not None:
            x, y = (io, self.t) if rev else (self.t, io)
            ii = f(x, y)
        return SFloat(f(a, b), ii)

    def __add__(self, o: Any) -> Any:
        return self._bin(o, lambda a, b: a + b)

    def __radd__(self, o: Any) -> Any:
        return self._bin(o, lambda a, b: a + b, True)

    def __sub__(self, o: Any) -> Any:
        return self._bin(o, lambda a, b: a - b)

    def __rsub__(self, o: Any) -> Any:
        return self._bin(o, lambda a, b: a - b, True)

    def __mul__(self, o: Any) -> Any:
        if isinstance(o, float) and _it(o) is None:
            return fmul_const(self.t, o)
        return self._bin(o, lambda a, b: a * b)

    def __rmul__(self, o: Any) -> Any:
        if isinstance(o, float) and _it(o) is None:
            return fmul_const(self.t, o)
        return self._bin(o, lambda a, b: a * b, True)

    def __neg__(self) -> "SInt":
        return SInt(-self.t)

    def __pos__(self) -> "SInt":
        return self

    def __abs__(self) -> "SInt":
        return SInt(z3.If(self.t >= 0, self.t, -self.t))

    def __floordiv__(self, o: Any) -> Any:
        io = _it(o)
        if io is not None and isinstance(o, (float, SFloat)):
            return SFloat(z3.ToReal(self.t), self.t) // o
        if io is None:
            raise HarnessError("floordiv with non-integer operand not modelled")
        return SInt(py_floordiv(self.t, io))

    def __rfloordiv__(self, o: Any) -> Any:
        io = _it(o)
        if io is None or isinstance(o, (float, SFloat)):
            raise HarnessError("floordiv with non-integer operand not modelled")
        return SInt(py_floordiv(io, self.t))

    def __mod__(self, o: Any) -> Any:
        io = _it(o)
        if io is None or isinstance(o, (float, SFloat)):
            raise HarnessError("mod with non-integer operand not modelled")
        return SInt(py_mod(self.t, io))

    def __rmod__(self, o: Any) -> Any:
        io = _it(o)
        if io is None or isinstance(o, (float, SFloat)):
            raise HarnessError("mod with non-integer operand not modelled")
        return SInt(py_mod(io, self.t))

    def __truediv__(self, o: Any) -> Any:
        return fdiv(self, o)

    def __rtruediv__(self, o: Any) -> Any:
        return fdiv(o, self)

    # comparisons
    def __lt__(self, o: Any) -> Any:
        return _cmp(self, o, "<")

    def __le__(self, o: Any) -> Any:
        return _cmp(self, o, "<=")

    def __gt__(self, o: Any) -> Any:
        return _cmp(self, o, ">")

    def __ge__(self, o: Any) -> Any:
        return _cmp(self, o, ">=")

    def __eq__(self, o: Any) -> Any:  # type: ignore[override]
        if not _is_num(o):
            return False
        return _cmp(self, o, "==")

    def __ne__(self, o: Any) -> Any:  # type: ignore[override]
        if not _is_num(o):
            return True
        return _cmp(self, o, "!=")

    __hash__ = None  # type: ignore[assignment]

    def __bool__(self) -> bool:
        return eng().decide(self.t != 0)

    def __repr__(self) -> str:
        return f"SInt({self.t})"


class SFloat:
    """a double, modelled as a real; ``it`` is its value as an integer term when it is known to
    be integer-valued (and hence exactly representable, |value| < 2**53 asserted by callers)"""

    __slots__ = ("t", "it", "fl", "isint")

    def __init__(self, t: Any, it: Optional[Any] = None, fl: Optional[Any] = None, isint: Optional[Any] = None):
        self.t = t
        self.it = it
        self.fl = fl  # integer term: floor of the value (known for quotients)
        self.isint = isint  # Bool term: the value is an integer

    def _bin(self, o: Any, f: Callable, rev: bool = False) -> Any:
        if not _is_num(o):
            return NotImplemented
        a, b = (_rt(o), self.t) if rev else (self.t, _rt(o))
        io = _it(o)
        ii = None
        if io is not None and self.it is not None:
            x, y = (io, self.it) if rev else (self.it, io)
            ii = f(x, y)
        if ii is None:
            # a sum/product of non-integer doubles rounds: not modelled beyond the division model
            raise HarnessError("float arithmetic on non-integer-valued doubles is outside the model")
        return SFloat(f(a, b), ii)

    def _mul(self, o: Any) -> Any:
        if isinstance(o, float) and _it(o) is None and self.it is not None:
            return fmul_const(self.it, o)
        return self._bin(o, lambda a, b: a * b)

    def __floordiv__(self, o: Any) -> Any:
        # float // float of integer-valued doubles below 2**53: fmod, the subtraction and the division are exact
        io = _it(o)
        if io is None or self.it is None:
            raise HarnessError("float floordiv of non-integer-valued doubles is outside the model")
        if eng().decide(io == 0):
            raise ZeroDivisionError("float floor division by zero")
        q = py_floordiv(self.it, io)
        return SFloat(z3.ToReal(q), q)

    def __rfloordiv__(self, o: Any) -> Any:
        io = _it(o)
        if io is None or self.it is None:
            raise HarnessError("float floordiv of non-integer-valued doubles is outside the model")
        if eng().decide(self.it == 0):
            raise ZeroDivisionError("float floor division by zero")
        q = py_floordiv(io, self.it)
        return SFloat(z3.ToReal(q), q)

    def __mod__(self, o: Any) -> Any:
        io = _it(o)
        if io is None or self.it is None:
            raise HarnessError("float mod of non-integer-valued doubles is outside the model")
        if eng().decide(io == 0):
            raise ZeroDivisionError("float modulo")
        q = py_mod(self.it, io)
        return SFloat(z3.ToReal(q), q)

    def __add__(self, o: Any) -> Any:
        return self._bin(o, lambda a, b: a + b)

    def __radd__(self, o: Any) -> Any:
        return self._bin(o, lambda a, b: a + b, True)

    def __sub__(self, o: Any) -> Any:
        return self._bin(o, lambda a, b: a - b)

    def __rsub__(self, o: Any) -> Any:
        return self._bin(o, lambda a, b: a - b, True)

    def __mul__(self, o: Any) -> Any:
        return self._mul(o)

    def __rmul__(self, o: Any) -> Any:
        return self._mul(o)

    def __neg__(self) -> "SFloat":
        return SFloat(-self.t, None if self.it is None else -self.it)

    def __truediv__(self, o: Any) -> Any:
        return fdiv(self, o)

    def __rtruediv__(self, o: Any) -> Any:
        return fdiv(o, self)

    def __lt__(self, o: Any) -> Any:
        return _cmp(self, o, "<")

    def __le__(self, o: Any) -> Any:
        return _cmp(self, o, "<=")

    def __gt__(self, o: Any) -> Any:
        return _cmp(self, o, ">")

    def __ge__(self, o: Any) -> Any:
        return _cmp(self, o, ">=")

    def __eq__(self, o: Any) -> Any:  # type: ignore[override]
        if not _is_num(o):
            return False
        return _cmp(self, o, "==")

    def __ne__(self, o: Any) -> Any:  # type: ignore[override]
        if not _is_num(o):
            return True
        return _cmp(self, o, "!=")

    __hash__ = None  # type: ignore[assignment]

    def __bool__(self) -> bool:
        return eng().decide(self.t != 0)

    def __repr__(self) -> str:
        return f"SFloat({self.t})"


FDIV_LIMIT = 2**32
FDIV_EPS = z3.RealVal(1) / z3.RealVal(2**20)


def fdiv(a: Any, b: Any) -> Any:
    """one IEEE-754 double division of integer-valued doubles"""
    if isinstance(a, (int, float)) and isinstance(b, (int, float)) and not isinstance(a, bool):
        return a / b
    ia, ib = _it(a), _it(b)
    if ia is None or ib is None:
        raise HarnessError(f"division outside the modelled fragment: {a!r} / {b!r}")
    e = eng()
    if e.fp_precise:
        from .fp import FPVal, F64

        return FPVal.of(a if not isinstance(a, SFloat) else SInt(a.it), F64) / FPVal.of(b if not isinstance(b, SFloat) else SInt(b.it), F64)
    if e.decide(ib == 0):
        raise ZeroDivisionError("float division by zero")
    exact = z3.ToReal(ia) / z3.ToReal(ib)
    # side condition of the error model; a path violating it is outside the stated bounds
    if not e.decide(z3.And(exact < FDIV_LIMIT, exact > -FDIV_LIMIT, ia < 2**53, ia > -(2**53), ib < 2**53, ib > -(2**53))):
        e.bound_exceeded += 1
        raise BoundExceeded("quotient beyond 2**32: outside the division model")
    if not e.decide(z3.And(ib < 2**20, ib > -(2**20))):
        e.bound_exceeded += 1
        raise BoundExceeded("divisor beyond 2**20: outside the division model")
    r = e.fresh_real("q")
    divides = (ia % z3.If(ib > 0, ib, -ib)) == 0
    fl = z3.simplify(py_floordiv(ia, ib))
    # exact is an integer or at least 1/|b| > 2**-20 away from one, so rounding never crosses an integer:
    # floor/ceil/trunc of the rounded quotient are those of the exact one (no ToInt over reals needed)
    e.solver.add(z3.If(divides, r == exact, z3.And(r - exact <= FDIV_EPS, exact - r <= FDIV_EPS, r > z3.ToReal(fl), r < z3.ToReal(fl + 1))))
    e.solver.add(z3.Implies(divides, r == z3.ToReal(fl)))
    return SFloat(r, None, fl, divides)


def fmul_const(ix: Any, c: float) -> "SFloat":
    """one IEEE-754 double multiplication (round to nearest, ties to even) of an integer-valued double |x| < 2**53 by the
    concrete double c - modelled EXACTLY in integer arithmetic: with |c| = num / 2**k the exact product is N / 2**k for
    N = |x| * num; if N has n > 53 bits the low s = n - 53 bits are rounded away (half-even); the binade of N is a path
    decision (one fork per feasible bit length, smallest first)."""
    import math

    e = eng()
    if c == 0.0 or math.isnan(c) or math.isinf(c):
        raise HarnessError(f"product with {c!r} outside the model")
    num, den = abs(c).as_integer_ratio()
    k = den.bit_length() - 1
    if math.frexp(abs(c))[1] < -900 or math.frexp(abs(c))[1] > 900:
        raise HarnessError("product with a subnormal / huge constant outside the model")
    if not e.decide(z3.And(ix < 2**53, ix > -(2**53))):
        e.bound_exceeded += 1
        raise BoundExceeded("integer-valued double beyond 2**53")
    if e.decide(ix == 0):
        return SFloat(z3.RealVal(0), z3.IntVal(0))
    xneg = e.decide(ix < 0)
    ax = -ix if xneg else ix
    neg = xneg if c > 0 else not xneg
    N = ax * num
    nb = num.bit_length()
    # the binade of the exact product is a path decision, smallest first (a counterexample near zero is found on the first paths)
    n = None
    for cand in range(nb, nb + 54):
        if e.decide(N < 2**cand):
            n = cand
            break
    if n is None:
        raise HarnessError("product beyond 2**106")
    sdrop = n - 53
    if sdrop <= 0:
        mant, ex = N, -k
    else:
        q = N / (2**sdrop)
        rem = N - q * (2**sdrop)
        half = 2 ** (sdrop - 1)
        up = z3.Or(rem > half, z3.And(rem == half, q % 2 == 1))
        mant, ex = z3.If(up, q + 1, q), sdrop - k
    if ex >= 0:
        mi = mant * (2**ex)
        it = -mi if neg else mi
        return SFloat(z3.ToReal(it), it)
    d = 2 ** (-ex)
    mag, mfl, mint = z3.ToReal(mant) / z3.RealVal(d), mant / d, mant % d == 0
    if neg:
        return SFloat(-mag, None, z3.If(mint, -mfl, -mfl - 1), mint)
    return SFloat(mag, None, mfl, mint)


def kint(x: Any = 0, *a: Any) -> Any:
    """int(): truncation toward zero"""
    if isinstance(x, SInt):
        return x
    if isinstance(x, SBool):
        return SInt(z3.If(x.t, 1, 0))
    if isinstance(x, SFloat):
        if x.it is not None:
            return SInt(x.it)
        if x.fl is not None:
            return SInt(z3.If(z3.Or(x.fl >= 0, x.isint), x.fl, x.fl + 1))
        fl = z3.ToInt(x.t)
        return SInt(z3.If(x.t >= 0, fl, -z3.ToInt(-x.t)))
    return int(x, *a)


def kfloat(x: Any = 0.0) -> Any:
    if isinstance(x, SInt):
        return SFloat(z3.ToReal(x.t), x.t)
    if isinstance(x, SFloat):
        return x
    return float(x)


def kbool(x: Any = False) -> Any:
    if isinstance(x, SBool):
        return x
    if isinstance(x, SInt):
        return SBool(x.t != 0)
    return bool(x)


def kceil(x: Any) -> Any:
    if isinstance(x, SInt):
        return x
    if isinstance(x, SFloat):
        if x.it is not None:
            return SInt(x.it)
        if x.fl is not None:
            return SInt(z3.If(x.isint, x.fl, x.fl + 1))
        return SInt(-z3.ToInt(-x.t))
    import math

    return math.ceil(x)


def kfloor(x: Any) -> Any:
    if isinstance(x, SInt):
        return x
    if isinstance(x, SFloat):
        if x.it is not None:
            return SInt(x.it)
        if x.fl is not None:
            return SInt(x.fl)
        return SInt(z3.ToInt(x.t))
    import math

    return math.floor(x)


class kmath:
    ceil = staticmethod(kceil)
    floor = staticmethod(kfloor)


def kmin(*a: Any) -> Any:
    if len(a) == 1:
        a = tuple(a[0])
    r = a[0]
    for x in a[1:]:
        if x < r:
            r = x
    return r


def kmax(*a: Any) -> Any:
    if len(a) == 1:
        a = tuple(a[0])
    r = a[0]
    for x in a[1:]:
        if x > r:
            r = x
    return r


def concretize_small(x: Any, lo: int, hi: int, what: str = "value") -> int:
    """fork over the values of a small-range symbolic integer (loop unwinding bound)."""
    if isinstance(x, int):
        return x
    if not isinstance(x, SInt):
        raise HarnessError(f"cannot concretise {x!r}")
    e = eng()
    for v in range(lo, hi + 1):
        if e.decide(x.t == v):
            return v
    e.bound_exceeded += 1
    raise BoundExceeded(f"{what} outside [{lo},{hi}]")


# ---- integer time ---------------------------------------------------------------------

class MDelta:
    __slots__ = ("s",)

    def __init__(self, s: Any):
        self.s = s  # int | SInt seconds

    def total_seconds(self) -> Any:
        if isinstance(self.s, int):
            return float(self.s)
        return SFloat(z3.ToReal(self.s.t), self.s.t)

    @property
    def days(self) -> Any:
        return self.s // 86400

    @property
    def seconds(self) -> Any:
        return self.s % 86400

    @property
    def microseconds(self) -> int:
        return 0

    def __add__(self, o: Any) -> Any:
        if isinstance(o, MDelta):
            return MDelta(self.s + o.s)
        if isinstance(o, MTime):
            return MTime(o.off + self.s)
        return NotImplemented

    __radd__ = __add__

    def __sub__(self, o: Any) -> Any:
        if isinstance(o, MDelta):
            return MDelta(self.s - o.s)
        return NotImplemented

    def __neg__(self) -> "MDelta":
        return MDelta(-self.s)

    def __mul__(self, o: Any) -> Any:
        if isinstance(o, (int, SInt)):
            return MDelta(self.s * o)
        return NotImplemented

    __rmul__ = __mul__

    def __lt__(self, o: "MDelta") -> Any:
        return self.s < o.s

    def __le__(self, o: "MDelta") -> Any:
        return self.s <= o.s

    def __gt__(self, o: "MDelta") -> Any:
        return self.s > o.s

    def __ge__(self, o: "MDelta") -> Any:
        return self.s >= o.s

    def __eq__(self, o: Any) -> Any:  # type: ignore[override]
        return isinstance(o, MDelta) and self.s == o.s

    def __ne__(self, o: Any) -> Any:  # type: ignore[override]
        return not isinstance(o, MDelta) or self.s != o.s

    __hash__ = None  # type: ignore[assignment]

    def __repr__(self) -> str:
        return f"MDelta({self.s})"


def _secs(x: Any, mult: int) -> Any:
    if isinstance(x, (int, SInt)) and not isinstance(x, bool):
        return x * mult
    if isinstance(x, float):
        v = x * mult
        if v != int(v):
            raise HarnessError("sub-second timedelta outside the integer-time model")
        return int(v)
    if isinstance(x, SFloat):
        if x.it is None:
            raise HarnessError("non-integer symbolic timedelta outside the integer-time model")
        return SInt(x.it) * mult
    raise HarnessError(f"bad timedelta component {x!r}")


def mtimedelta(days: Any = 0, seconds: Any = 0, microseconds: Any = 0, milliseconds: Any = 0, minutes: Any = 0,
               hours: Any = 0, weeks: Any = 0) -> MDelta:
    if microseconds or milliseconds:
        raise HarnessError("sub-second timedelta outside the integer-time model")
    return MDelta(_secs(days, 86400) + _secs(seconds, 1) + _secs(minutes, 60) + _secs(hours, 3600) + _secs(weeks, 604800))


class MTime:
    """an instant: whole seconds since an arbitrary epoch"""

    __slots__ = ("off",)

    def __init__(self, off: Any):
        self.off = off

    def __add__(self, o: Any) -> Any:
        if isinstance(o, MDelta):
            return MTime(self.off + o.s)
        return NotImplemented

    __radd__ = __add__

    def __sub__(self, o: Any) -> Any:
        if isinstance(o, MDelta):
            return MTime(self.off - o.s)
        if isinstance(o, MTime):
            return MDelta(self.off - o.off)
        return NotImplemented

    def __lt__(self, o: "MTime") -> Any:
        return self.off < o.off

    def __le__(self, o: "MTime") -> Any:
        return self.off <= o.off

    def __gt__(self, o: "MTime") -> Any:
        return self.off > o.off

    def __ge__(self, o: "MTime") -> Any:
        return self.off >= o.off

    def __eq__(self, o: Any) -> Any:  # type: ignore[override]
        if not isinstance(o, MTime):
            return False
        return self.off == o.off

    def __ne__(self, o: Any) -> Any:  # type: ignore[override]
        if not isinstance(o, MTime):
            return True
        return self.off != o.off

    __hash__ = None  # type: ignore[assignment]

    def __repr__(self) -> str:
        return f"MTime({self.off})"


class patched_globals:
    """rebind module-level names looked up by real function objects for the duration of a run"""

    def __init__(self, module: Any, **names: Any):
        self.d = module.__dict__ if hasattr(module, "__dict__") else module
        self.names = names
        self.saved: dict[str, Any] = {}

    def __enter__(self) -> "patched_globals":
        for k, v in self.names.items():
            self.saved[k] = self.d.get(k, _MISSING)
            self.d[k] = v
        return self

    def __exit__(self, *a: Any) -> None:
        for k, v in self.saved.items():
            if v is _MISSING:
                self.d.pop(k, None)
            else:
                self.d[k] = v


_MISSING = object()
