"""Build a real scriptplan project for a traced scheduling run.

Everything that is concrete (Lark parse, horizon extension, scoreboards, calendars) runs OUTSIDE
tracing; then the project clock is switched to IntTime, each leaf resource's onShift() is replaced by a
table filled by the real method, and the caller injects symbolic attribute values before calling the
real Project.scheduleScenario / finishScenario under tracing.
"""
from __future__ import annotations

import contextlib
import io
from datetime import datetime, timedelta
from typing import Any, Optional

from .inttime import IntTime, to_dt, to_int


def notrace() -> Any:
    try:
        from crosshair.tracers import NoTracing, is_tracing

        if is_tracing():
            return NoTracing()
    except Exception:  # noqa: BLE001
        pass
    return contextlib.nullcontext()


def force_python_fallbacks() -> None:
    import scriptplan.core.project as p
    import scriptplan.core.working_hours as w
    import scriptplan.scheduler.scoreboard as s

    p._USE_CYTHON = False
    w._USE_CYTHON = False
    s._USE_CYTHON = False


class GAttrs(dict):
    """project.attributes with two views of the slot length: `attributes["scheduleGranularity"]` (how Project.dateToIdx / idxToDate /
    scoreboardSize read it - index arithmetic, decided separately by C17) stays CONCRETE, while
    `attributes.get("scheduleGranularity", ...)` (how TaskScenario / ResourceScenario read it for the sub-slot arithmetic) returns the
    symbolic integer pinned by the precondition G == resolution, so that quotients such as eff/3600 are exact symbolic terms.
    With a symbolic divisor in dateToIdx CrossHair realises the numerator (measured: one path per concrete second of a dependency bound)."""

    def __init__(self, base: dict, g_sym: Any):
        super().__init__(base)
        self._g_sym = g_sym

    def get(self, key: Any, default: Any = None) -> Any:
        if key == "scheduleGranularity" and self._g_sym is not None:
            return self._g_sym
        return super().get(key, default)


def set_symbolic_granularity(project: Any, g_sym: Any, concrete: int) -> None:
    base = dict(project.attributes)
    base["scheduleGranularity"] = concrete
    project.attributes = GAttrs(base, g_sym)


class Warnings:
    def __init__(self) -> None:
        self.ids: list[str] = []


def parse(text: str) -> Any:
    from scriptplan.parser.tjp_parser import ProjectFileParser

    with contextlib.redirect_stderr(io.StringIO()), contextlib.redirect_stdout(io.StringIO()):
        return ProjectFileParser().parse(text, schedule=False)


def prepare(project: Any, inttime: bool = True, tabulate: bool = True, scenario: int = 0) -> dict:
    """the part of Project.schedule() before scheduleScenario, plus the harness substitutions"""
    from scriptplan.core.property import AttributeBase

    info: dict[str, Any] = {}
    with contextlib.redirect_stderr(io.StringIO()):
        project._extendProjectEndIfNeeded()
        project.initScoreboards()
        for p in [project.accounts, project.shifts, project.resources, project.tasks]:
            p.index()
        AttributeBase.setMode(1)
        project.prepareScenario(scenario)
        AttributeBase.setMode(2)
    base = project.attributes["start"]
    info["base"] = base
    info["end"] = project.attributes["end"]
    info["size"] = project.scoreboardSize()
    info["g"] = project.attributes["scheduleGranularity"]
    info["wt"] = [project.isWorkingTime(i) for i in range(info["size"])]
    if tabulate:
        tabulate_calendars(project, scenario, info)
    if inttime:
        switch_clock(project, scenario, base)
    concretise_slot_indices(project)
    return info


def concretise_slot_indices(project: Any) -> None:
    """The value Project.dateToIdx returns is realised (one path per feasible SLOT, as the first scoreboard access would do anyway):
    a slot index that stays symbolic makes every step of the slot walk a solver problem (measured: 1-2 s per scheduleSlot call,
    path timeouts on a weekend walk).  The seconds inside the slot stay symbolic - only int(<symbolic float>) inside the real
    method is prevented from enumerating them (sx.driver)."""
    real = project.dateToIdx

    def date_to_idx(date: Any, forceIntoProject: bool = True) -> Any:
        idx = real(date, forceIntoProject)
        # (under tracing type() reports proxies as int: ask outside tracing)
        with notrace():
            symbolic = type(idx) is not int
        if symbolic:
            from crosshair.core import realize

            idx = realize(idx)
        return idx

    project.dateToIdx = date_to_idx


def prepare_next_scenario(project: Any, sc: int, info: dict, inttime: bool = True, tabulate: bool = True) -> None:
    """what Project.schedule() does at the top of its scenario loop for a further scenario (concrete, untraced)"""
    from scriptplan.core.property import AttributeBase

    with contextlib.redirect_stderr(io.StringIO()):
        AttributeBase.setMode(1)
        project.prepareScenario(sc)
        AttributeBase.setMode(2)
    if tabulate:
        tabulate_calendars(project, sc, info)
    if inttime:
        for t in project.tasks:
            for attr in ("start", "end", "minstart", "maxstart", "minend", "maxend"):
                v = t.get(attr, sc)
                if isinstance(v, datetime):
                    t[(attr, sc)] = to_int(v, info["base"])


def tabulate_calendars(project: Any, sc: int, info: dict) -> None:
    size = info["size"]
    info["onshift"] = {}
    for r in project.resources:
        if not r.leaf():
            continue
        rs = r.data[sc]
        table = [bool(rs.onShift(i)) for i in range(size)]
        info["onshift"][r.fullId] = table

        def on_shift(idx: int, _t: list = table) -> bool:
            return _t[idx] if 0 <= idx < len(_t) else False

        rs.onShift = on_shift  # instance attribute shadows the method: a symbolic index becomes a list lookup
    # limit period indices: pure functions of concrete data, tabulated by the real method
    seen: set[int] = set()

    def tab_limits(limits: Any) -> None:
        if not limits or not hasattr(limits, "_limits"):
            return
        for lim in limits._limits:
            if id(lim) in seen:
                continue
            seen.add(id(lim))
            tbl = [lim._idx_to_sb_idx(i) for i in range(size + 2)]
            lim._idx_to_sb_idx = (lambda idx, _t=tbl: _t[idx])

    for coll in (project.resources, project.tasks):
        for p in coll:
            tab_limits(p.get("limits", sc))


def switch_clock(project: Any, sc: int, base: datetime) -> None:
    IntTime.BASE = base
    a = project.attributes
    a["start"] = to_int(a["start"], base)
    a["end"] = to_int(a["end"], base)
    for t in project.tasks:
        for attr in ("start", "end", "minstart", "maxstart", "minend", "maxend"):
            v = t.get(attr, sc)
            if isinstance(v, datetime):
                t[(attr, sc)] = to_int(v, base)


def restore_clock(project: Any, sc: int, base: datetime, end: datetime) -> None:
    a = project.attributes
    a["start"], a["end"] = base, end
    for t in project.tasks:
        for attr in ("start", "end"):
            v = t.get(attr, sc)
            if isinstance(v, IntTime):
                t[(attr, sc)] = to_dt(v, base)


def run_scenario(project: Any, sc: int = 0) -> list[str]:
    """the traced part: real scheduleScenario + finishScenario; returns ids of warnings emitted"""
    buf = io.StringIO()
    ids: list[str] = []
    orig = project.warning

    def warning(id_: str, *a: Any, **k: Any) -> Any:
        ids.append(id_)
        return None

    project.warning = warning
    from scriptplan.core.task_scenario import TaskScenario

    real_slot = TaskScenario.scheduleSlot
    steps = [0]
    limit = (sum(1 for t in project.tasks if t.leaf()) + 2) * (project.scoreboardSize() + 2) * 4

    def counted(self: Any) -> bool:
        steps[0] += 1
        if steps[0] > limit:
            raise RuntimeError(f"scheduling does not terminate within a bound proportional to project size ({steps[0]} slot steps)")
        return real_slot(self)

    TaskScenario.scheduleSlot = counted  # type: ignore[method-assign]
    try:
        project.scheduleScenario(sc)
        project.finishScenario(sc)
    finally:
        TaskScenario.scheduleSlot = real_slot  # type: ignore[method-assign]
        del project.warning
    LAST_STEPS[0] = steps[0]
    return ids


LAST_STEPS = [0]


def secs(x: Any, base: Optional[datetime]) -> Any:
    """instant -> seconds since project start (number; symbolic under tracing)"""
    if x is None:
        return None
    if isinstance(x, IntTime):
        return x.s
    return (x - base).total_seconds()


def observe(project: Any, sc: int, info: dict) -> dict:
    base = info["base"]
    tasks = {}
    for t in project.tasks:
        tasks[t.fullId] = {
            "leaf": t.leaf(),
            "scheduled": bool(t.get("scheduled", sc)),
            "start": secs(t.get("start", sc), base),
            "end": secs(t.get("end", sc), base),
            "forward": t.get("forward", sc),
        }
    res = {}
    for r in project.resources:
        rs = r.data[sc] if r.data else None
        if rs is None:
            continue
        ledger: dict[int, list] = {}
        for idx, lst in rs.slotTaskUsage.items():
            ledger[idx] = [(tk.fullId, s) for tk, s in lst]
        res[r.fullId] = {"leaf": r.leaf(), "ledger": ledger, "used": dict(rs.slotSecondsUsed),
                         "eff": r.get("efficiency", sc) if r.get("efficiency", sc) is not None else 1.0}
    return {"tasks": tasks, "res": res}
