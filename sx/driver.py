"""Thin programmatic CrossHair driver: exhaustion spy, reals mode, counterexample extraction."""
from __future__ import annotations

import ast
import re
import time
from typing import Any, Callable, Optional


def setup_reals_mode() -> None:
    """one float model (reals), no UNKNOWN cap - see DESIGN 2.1; internals of crosshair-tool 0.0.110"""
    import crosshair.libimpl.builtinslib as bl
    from crosshair.statespace import StateSpace

    assert hasattr(bl, "_PYTYPE_TO_WRAPPER_TYPE") and hasattr(bl, "RealBasedSymbolicFloat"), "crosshair internals changed"
    assert hasattr(StateSpace, "cap_result_at_unknown"), "crosshair internals changed"
    bl._PYTYPE_TO_WRAPPER_TYPE[float] = ((bl.RealBasedSymbolicFloat, 1.0),)
    StateSpace.cap_result_at_unknown = lambda self: None  # type: ignore[method-assign]
    # int(<symbolic float>) realises its argument in crosshair 0.0.110 (one path per concrete value: measured as the source of
    # path explosion at Project.dateToIdx for every dependency bound); use the symbolic truncation the same class already
    # defines as __int__ (z3: If(x >= 0, ToInt(x), -ToInt(-x)))
    import crosshair.core as core
    from crosshair.tracers import NoTracing

    assert int in core._PATCH_REGISTRATIONS, "crosshair internals changed"
    orig_int = core._PATCH_REGISTRATIONS[int]
    if not getattr(orig_int, "_verif_patched", False):
        _MISSING = object()

        def _int(val: Any = 0, base: Any = _MISSING) -> Any:
            # everything runs under NoTracing: the original ends in a plain int(val), which must not be intercepted again
            with NoTracing():
                if base is _MISSING:
                    if isinstance(val, bl.RealBasedSymbolicFloat):
                        return val.__int__()
                    return orig_int(val)
                return orig_int(val, base)

        _int._verif_patched = True  # type: ignore[attr-defined]
        core._PATCH_REGISTRATIONS[int] = _int


def analyze(fn: Callable, cond_timeout: float, path_timeout: float = 60.0) -> dict:
    import crosshair.core as core
    from crosshair.core_and_libs import analyze_function, run_checkables
    from crosshair.options import AnalysisKind, AnalysisOptionSet

    setup_reals_mode()
    spy: dict[str, Any] = {}
    orig_debug = core.debug

    def debug(*a: Any) -> None:
        if len(a) >= 3 and a[1] == "calltree search with":
            spy["exhausted"] = a[0] == "Exhausted"
            spy["status"] = a[2]
            spy["iterations"] = a[-1]

    core.debug = debug  # type: ignore[assignment]
    t0 = time.perf_counter()
    try:
        opts = AnalysisOptionSet(analysis_kind=[AnalysisKind.PEP316], per_condition_timeout=cond_timeout,
                                 per_path_timeout=path_timeout, max_iterations=10**7, max_uninteresting_iterations=10**9)
        checkables = analyze_function(fn, opts)
        if not checkables:
            return {"error": "CrossHair found no conditions on the harness"}
        msgs = run_checkables(checkables)
    finally:
        core.debug = orig_debug  # type: ignore[assignment]
    out = {"exhausted": bool(spy.get("exhausted")), "cx_status": spy.get("status"), "iterations": int(spy.get("iterations") or 0),
           "wall_s": round(time.perf_counter() - t0, 2), "messages": [(m.state.name, m.message) for m in msgs]}
    return out


_CALL = re.compile(r"when calling (\w+)\((.*?)\)(?: \(which (?:returns|raises) .*\))?\s*$", re.S)


def parse_counterexample(message: str, params: list[str]) -> Optional[dict]:
    m = _CALL.search(message.strip())
    if not m:
        return None
    try:
        call = ast.parse(f"f({m.group(2)})", mode="eval").body
    except SyntaxError:
        return None
    vals: dict[str, Any] = {}
    try:
        for name, a in zip(params, call.args):  # type: ignore[attr-defined]
            vals[name] = ast.literal_eval(a)
        for kw in call.keywords:  # type: ignore[attr-defined]
            vals[kw.arg] = ast.literal_eval(kw.value)
    except (ValueError, SyntaxError):
        return None
    return vals
