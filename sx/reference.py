"""Independent reference list scheduler for the core dialect (C07, also used by C09/C14/C16 comparisons).

Rule (the documented one): tasks in order of priority (descending), ties in declaration order; a task is
placed as soon as all its predecessors (own, inherited from every enclosing container, created by
'precedes') are placed; it takes the earliest slots at or after its dependency bound in which every
member of its allocation is working (calendar table), unbooked, and within all limits (resource,
resource ancestors, task, task ancestors); each slot contributes slot_hours x efficiency; it stops
when the effort is reached.  start = begin of the first slot used, end = end of the last.

Core dialect: efforts are whole slots at the resource's efficiency, pins/gaps/calendars are slot aligned.
Works on symbolic values (the same traced call as the real scheduler) and on concrete ones.
"""
from __future__ import annotations

from datetime import timedelta
from typing import Any, Optional

from .oracle import _leaf_path, _limit_seconds, all_edges, res_by_leaf_id
from .spec import Spec, Task, val


def _period(spec: Spec, kind: str, slot: int, g: int) -> Any:
    d = spec.start + timedelta(seconds=slot * g)
    if kind == "dailymax":
        return ("d", d.date().toordinal())
    iso = d.isocalendar()
    return ("w", iso[0], iso[1])


def reference_schedule(spec: Spec, vals: dict, info: dict) -> dict:
    g, size = info["g"], info["size"]
    leaves = [t for t in spec.tasks if spec.is_leaf(t)]
    order = []
    for seq, t in enumerate(spec.tasks):
        if not spec.is_leaf(t):
            continue
        prio = val(t.prio, vals) if t.prio is not None else _inherited_prio(spec, t, vals)
        order.append((prio, seq, t))
    # priority descending, declaration order ascending (insertion sort keeps symbolic comparisons explicit)
    sorted_tasks: list[tuple[Any, int, Task]] = []
    for item in order:
        pos = len(sorted_tasks)
        for k, other in enumerate(sorted_tasks):
            if item[0] > other[0]:
                pos = k
                break
        sorted_tasks.insert(pos, item)
    edges = all_edges(spec)
    placed: dict[str, Optional[tuple[Any, Any]]] = {}   # tid -> (start, end) or None (failed)
    container_dates: dict[str, tuple[Any, Any]] = {}
    booked: dict[tuple[str, int], bool] = {}
    counters: dict[tuple[str, str, Any], int] = {}
    remaining = [t for _p, _s, t in sorted_tasks]
    upper = size - 1  # dateToIdx(project end)

    def pred_date(pid: str, onstart: bool) -> Any:
        """None = predecessor not placed yet; 'fail' = will never be"""
        pt = spec.task(pid)
        if spec.is_leaf(pt):
            if pid not in placed:
                return None
            if placed[pid] is None:
                return "fail"
            return placed[pid][0] if onstart else placed[pid][1]
        kids = [spec.full_id(k) for k in spec.tasks if spec.full_id(k).startswith(pid + ".") and spec.is_leaf(k)]
        if any(k not in placed for k in kids):
            return None
        if any(placed[k] is None for k in kids):
            return "fail"
        ds = [placed[k][0] if onstart else placed[k][1] for k in kids]
        best = ds[0]
        for d in ds[1:]:
            if (onstart and d < best) or (not onstart and d > best):
                best = d
        return best

    progress = True
    while remaining and progress:
        progress = False
        for t in list(remaining):
            tid = spec.full_id(t)
            bound: Any = 0
            ready = True
            failed = False
            pin = _pinned_start(spec, t, vals)
            for (succ, pred, gsec, onstart) in edges:
                if succ != tid:
                    continue
                d = pred_date(pred, onstart)
                if d is None:
                    ready = False
                    break
                if isinstance(d, str):
                    failed = True
                    continue
                if d + gsec > bound:
                    bound = d + gsec
            if not ready:
                continue
            remaining.remove(t)
            progress = True
            if failed:
                # the real scheduler treats an unscheduled predecessor as never ready: the task stays unscheduled
                placed[tid] = None
                break
            if pin is not None:
                bound = pin
            placed[tid] = _place(spec, t, vals, info, bound, booked, counters, upper)
            break
    for t in remaining:
        placed[spec.full_id(t)] = None
    out = {}
    for t in leaves:
        tid = spec.full_id(t)
        p = placed.get(tid)
        out[tid] = {"scheduled": p is not None, "start": p[0] if p else None, "end": p[1] if p else None}
    return out


def _inherited_prio(spec: Spec, t: Task, vals: dict) -> Any:
    parts = spec.full_id(t).split(".")
    for k in range(len(parts) - 1, 0, -1):
        anc = spec.task(".".join(parts[:k]))
        if anc.prio is not None:
            return val(anc.prio, vals)
    return 500


def _pinned_start(spec: Spec, t: Task, vals: dict) -> Any:
    if t.start is not None:
        return spec.tval(t.start, vals)
    parts = spec.full_id(t).split(".")
    for k in range(len(parts) - 1, 0, -1):
        anc = spec.task(".".join(parts[:k]))
        if anc.start is not None:
            return spec.tval(anc.start, vals)
    return None


def _limit_owners(spec: Spec, t: Task, rname: str) -> list[tuple[str, str, int]]:
    """(owner key, kind, limit in slots-seconds) of every limit that applies to booking resource rname for task t"""
    out = []
    r = next(x for x in spec.resources if x.id == rname)
    while True:
        for kind, txt in r.limits.items():
            out.append((f"res:{r.id}", kind, _limit_seconds(txt)))
        if not r.parent:
            break
        r = next(x for x in spec.resources if x.id == r.parent)
    parts = spec.full_id(t).split(".")
    for k in range(len(parts), 0, -1):
        tk = spec.task(".".join(parts[:k]))
        for kind, txt in tk.limits.items():
            out.append((f"task:{spec.full_id(tk)}", kind, _limit_seconds(txt)))
    return out


def _place(spec: Spec, t: Task, vals: dict, info: dict, bound: Any, booked: dict, counters: dict, upper: int) -> Optional[tuple[Any, Any]]:
    g = info["g"]
    effort = spec.eval_effort(t.effort, vals) if t.effort is not None else 0
    if t.effort is None or not t.alloc:
        return (bound, bound)  # milestone at its dependency bound
    if bound < 0 or bound > upper * g:
        return None
    members = t.alloc
    eff = max(res_by_leaf_id(spec, r).eff for r in members)
    slot = bound // g
    done = 0  # effort seconds credited
    first = None
    last = None
    while True:
        if slot > upper:
            return None
        usable = True
        for r in members:
            rp = _leaf_path(spec, r)
            if slot >= len(info["onshift"][rp]) or not info["onshift"][rp][slot] or booked.get((rp, slot)):
                usable = False
                break
            for (owner, kind, lim_s) in _limit_owners(spec, t, r):
                lim_slots = int(lim_s // g)
                if counters.get((owner, kind, _period(spec, kind, slot, g)), 0) >= lim_slots:
                    usable = False
                    break
            if not usable:
                break
        if usable:
            seen_owner: set = set()
            for r in members:
                booked[(_leaf_path(spec, r), slot)] = True
                for (owner, kind, _l) in _limit_owners(spec, t, r):
                    key = (owner, kind, _period(spec, kind, slot, g))
                    # a task-level limit counts every member booking, a resource-level one its own
                    counters[key] = counters.get(key, 0) + 1
            if first is None:
                first = slot
            last = slot
            done = done + g * eff
            if done >= effort:
                return (first * g, (last + 1) * g)
        slot = slot + 1
