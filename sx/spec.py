"""Declarative project descriptions ("specs") for whole-run harnesses.

A spec is the harness's OWN description of a project: it is rendered to .tjp text (for the concrete
set-up and for replay through the public API), symbolic parameters are injected into the parsed
model, and the oracles re-derive edges, calendars and limits from the spec - never from the model.

Quantities: efforts and offsets are integer SECONDS; `P("name")` marks a symbolic parameter.
"""
from __future__ import annotations

from dataclasses import dataclass, field
from datetime import datetime, timedelta
from typing import Any, Optional, Union


@dataclass(frozen=True)
class P:
    name: str


Val = Union[int, float, P, None]


def val(x: Val, vals: dict) -> Any:
    return vals[x.name] if isinstance(x, P) else x


@dataclass
class Dep:
    on: str                      # full id of the predecessor
    gap: Optional[str] = None    # gapduration text, e.g. "29min", "1d"
    onstart: bool = False
    ref: Optional[str] = None    # how the reference is written (default: absolute via '!' prefixes computed by render)


@dataclass
class Res:
    id: str
    eff: float = 1.0
    parent: Optional[str] = None
    limits: dict[str, str] = field(default_factory=dict)   # {"dailymax": "2h"}
    hours: list[str] = field(default_factory=list)          # ["mon - fri 9:00 - 12:00, 13:00 - 18:00"]
    leaves: list[str] = field(default_factory=list)         # ["annual 2025-01-07", "annual 2025-01-08 - 2025-01-10"]
    vacation: list[str] = field(default_factory=list)
    tz: Optional[str] = None
    shift: Optional[str] = None
    rate: Optional[float] = None
    bookings: list[tuple[str, str]] = field(default_factory=list)   # [("2025-01-06-09:00", "1w")] -> booking "b" <date> +<duration>


@dataclass
class Task:
    id: str
    parent: Optional[str] = None
    effort: Val = None            # seconds
    alloc: list[str] = field(default_factory=list)
    alt: list[str] = field(default_factory=list)
    deps: list[Dep] = field(default_factory=list)
    precedes: list[str] = field(default_factory=list)
    prio: Val = None
    start: Val = None             # offset in seconds from the project start
    end: Val = None
    scheduling: Optional[str] = None
    limits: dict[str, str] = field(default_factory=dict)
    milestone: bool = False
    duration: Optional[str] = None
    flags: list[str] = field(default_factory=list)
    scen_effort: dict[str, Val] = field(default_factory=dict)   # scenario id -> effort seconds
    scen_start: dict[str, Val] = field(default_factory=dict)

    @property
    def path(self) -> str:
        return self.id


@dataclass
class Spec:
    tasks: list[Task]
    resources: list[Res]
    start: datetime = datetime(2025, 1, 6)
    length: str = "1w"
    resolution: int = 3600
    scheduling: Optional[str] = None
    vacations: list[str] = field(default_factory=list)     # ["2025-01-08", "2025-01-09 - 2025-01-11"]
    global_leaves: list[str] = field(default_factory=list)  # ["2025-01-07"] -> leaves holiday "h" <interval> at project level
    shifts: dict[str, list[str]] = field(default_factory=dict)   # shift id -> workinghours lines
    scenarios: Optional[str] = None                        # raw scenario block text inside project {...}
    scen_names: list[str] = field(default_factory=lambda: ["plan"])   # in declaration (= index) order
    scen_parent: dict[str, Optional[str]] = field(default_factory=dict)
    reports: list[str] = field(default_factory=list)       # raw report definitions
    extra_header: str = ""
    tz: str = "UTC"
    effort_unit: int = 1  # symbolic efforts are given in this many seconds (3600 = whole hours)
    time_unit: int = 1   # symbolic pinned offsets (start/end parameters) are given in this many seconds (60 = minutes)

    def eval_effort(self, x: Val, vals: dict) -> Any:
        """an effort in seconds"""
        return vals[x.name] * self.effort_unit if isinstance(x, P) else x

    def tval(self, x: Val, vals: dict) -> Any:
        """a pinned offset in seconds"""
        return vals[x.name] * self.time_unit if isinstance(x, P) else x

    def task(self, path: str) -> Task:
        for t in self.tasks:
            if self.full_id(t) == path:
                return t
        raise KeyError(path)

    def full_id(self, t: Task) -> str:
        return t.id if not t.parent else f"{t.parent}.{t.id}"

    def children(self, path: Optional[str]) -> list[Task]:
        return [t for t in self.tasks if t.parent == path]

    def is_leaf(self, t: Task) -> bool:
        return not self.children(self.full_id(t))

    def params(self) -> list[str]:
        names: list[str] = []

        def add(x: Any) -> None:
            if isinstance(x, P) and x.name not in names:
                names.append(x.name)

        for t in self.tasks:
            for x in (t.effort, t.prio, t.start, t.end, *t.scen_effort.values(), *t.scen_start.values()):
                add(x)
        return names


def fmt_effort(secs: Any) -> str:
    return f"{secs / 3600.0!r}h"


def fmt_date(spec: Spec, off: Any) -> str:
    d = spec.start + timedelta(seconds=int(off))
    return d.strftime("%Y-%m-%d-%H:%M") + (f":{d.second:02d}" if d.second else "")


def rel_ref(spec: Spec, frm: Task, target: str) -> str:
    """absolute reference written with the '!' prefixes needed from task `frm`"""
    depth = len(spec.full_id(frm).split("."))
    return "!" * depth + target


def render(spec: Spec, vals: Optional[dict] = None, defaults: Optional[dict] = None) -> str:
    v = dict(defaults or {})
    v.update(vals or {})
    out: list[str] = []
    res = {3600: "60min", 1800: "30min", 900: "15min", 300: "5min", 60: "1min"}[spec.resolution]
    st = spec.start.strftime("%Y-%m-%d") + (spec.start.strftime("-%H:%M") if (spec.start.hour or spec.start.minute) else "")
    out.append(f'project prj "Prj" {st} +{spec.length} {{')
    out.append(f'  timezone "{spec.tz}"')
    if spec.resolution != 3600:
        out.append(f"  timingresolution {res}")
    if spec.scheduling:
        out.append(f"  scheduling {spec.scheduling}")
    if spec.scenarios:
        out.append(spec.scenarios)
    if spec.extra_header:
        out.append(spec.extra_header)
    out.append("}")
    for vac in spec.vacations:
        out.append(f'vacation "v" {vac}')
    for lv in spec.global_leaves:
        out.append(f'leaves holiday "h" {lv}')
    for sid, lines in spec.shifts.items():
        out.append(f'shift {sid} "{sid}" {{')
        for ln in lines:
            out.append(f"  workinghours {ln}")
        out.append("}")

    def emit_res(parent: Optional[str], ind: str) -> None:
        for r in spec.resources:
            if r.parent != parent:
                continue
            out.append(f'{ind}resource {r.id} "{r.id}" {{')
            if r.eff != 1.0:
                out.append(f"{ind}  efficiency {r.eff}")
            if r.rate is not None:
                out.append(f"{ind}  rate {r.rate}")
            if r.tz:
                out.append(f'{ind}  timezone "{r.tz}"')
            if r.shift:
                out.append(f"{ind}  workinghours {r.shift}")
            for ln in r.hours:
                out.append(f"{ind}  workinghours {ln}")
            for ln in r.leaves:
                out.append(f"{ind}  leaves {ln}")
            for ln in r.vacation:
                out.append(f"{ind}  vacation {ln}")
            for (when, dur) in r.bookings:
                out.append(f'{ind}  booking "b" {when} +{dur}')
            if r.limits:
                out.append(f"{ind}  limits {{ " + " ".join(f"{k} {x}" for k, x in r.limits.items()) + " }")
            emit_res(r.id, ind + "  ")
            out.append(f"{ind}}}")

    emit_res(None, "")

    def emit_task(parent: Optional[str], ind: str) -> None:
        for t in spec.tasks:
            if t.parent != parent:
                continue
            out.append(f'{ind}task {t.id} "{t.id}" {{')
            if t.milestone:
                out.append(f"{ind}  milestone")
            if t.effort is not None:
                out.append(f"{ind}  effort {fmt_effort(spec.eval_effort(t.effort, v))}")
            for sid, e in t.scen_effort.items():
                out.append(f"{ind}  {sid}:effort {fmt_effort(spec.eval_effort(e, v))}")
            if t.duration:
                out.append(f"{ind}  duration {t.duration}")
            if t.alloc:
                a = ", ".join(t.alloc)
                if t.alt:
                    a += " { alternative " + ", ".join(t.alt) + " }"
                out.append(f"{ind}  allocate {a}")
            if t.prio is not None:
                out.append(f"{ind}  priority {int(val(t.prio, v))}")
            if t.scheduling:
                out.append(f"{ind}  scheduling {t.scheduling}")
            if t.start is not None:
                out.append(f"{ind}  start {fmt_date(spec, spec.tval(t.start, v))}")
            for sid, s in t.scen_start.items():
                out.append(f"{ind}  {sid}:start {fmt_date(spec, spec.tval(s, v))}")
            if t.end is not None:
                out.append(f"{ind}  end {fmt_date(spec, spec.tval(t.end, v))}")
            for d in t.deps:
                ref = d.ref or rel_ref(spec, t, d.on)
                opts = []
                if d.gap:
                    opts.append(f"gapduration {d.gap}")
                if d.onstart:
                    opts.append("onstart")
                out.append(f"{ind}  depends {ref}" + (" { " + " ".join(opts) + " }" if opts else ""))
            for pr in t.precedes:
                out.append(f"{ind}  precedes {rel_ref(spec, t, pr)}")
            if t.flags:
                out.append(f"{ind}  flags " + ", ".join(t.flags))
            if t.limits:
                out.append(f"{ind}  limits {{ " + " ".join(f"{k} {x}" for k, x in t.limits.items()) + " }")
            emit_task(spec.full_id(t), ind + "  ")
            out.append(f"{ind}}}")

    emit_task(None, "")
    for rep in spec.reports:
        out.append(rep)
    return "\n".join(out) + "\n"


def inject(spec: Spec, project: Any, vals: dict, markers: dict, scenarios: Optional[list[int]] = None) -> None:
    """Substitute the (symbolic) parameter values for their MARKERS in the parsed model.

    The project text is rendered with a distinct marker value per parameter; wherever the parser (with its own
    inheritance / scenario / override logic) left a marker in a task's effort, priority, start or end - in any
    scenario - the parameter's value is written instead.  The harness thus never decides where a value belongs."""
    from datetime import timedelta as _td

    from .inttime import IntTime

    base = spec.start
    n_sc = len(list(project.scenarios))
    eff_mark = {}
    prio_mark = {}
    date_mark = {}
    for t in spec.tasks:
        for x in (t.effort, *t.scen_effort.values()):
            if isinstance(x, P):
                eff_mark[markers[x.name] * spec.effort_unit] = x.name
        if isinstance(t.prio, P):
            prio_mark[markers[t.prio.name]] = t.prio.name
        for x in (t.start, t.end, *t.scen_start.values()):
            if isinstance(x, P):
                date_mark[base + _td(seconds=markers[x.name] * spec.time_unit)] = x.name
    for task in project.tasks:
        for k in (scenarios if scenarios is not None else range(n_sc)):
            e = task.get("effort", k)
            if e and not isinstance(e, bool) and type(e) in (int, float):
                name = eff_mark.get(round(e * 3600))
                if name is not None:
                    task[("effort", k)] = vals[name] * spec.effort_unit / 3600.0
            p_ = task.get("priority", k)
            if type(p_) is int and p_ in prio_mark and task.leaf():
                task[("priority", k)] = vals[prio_mark[p_]]
            for attr in ("start", "end"):
                d = task.get(attr, k)
                if d is None:
                    continue
                if isinstance(d, IntTime):
                    key = base + _td(seconds=d.s) if type(d.s) is int else None
                else:
                    key = d
                if key is not None and key in date_mark:
                    task[(attr, k)] = IntTime(vals[date_mark[key]] * spec.time_unit)


GAP_SECONDS = {"min": 60, "h": 3600, "d": 86400, "w": 604800}


def gap_seconds(gap: Optional[str]) -> int:
    """calendar seconds of a gapduration text (d = 24 h, w = 7 d, as in TaskJuggler)"""
    if not gap:
        return 0
    import re

    m = re.match(r"(\d+)(min|h|d|w)$", gap)
    assert m, gap
    return int(m.group(1)) * GAP_SECONDS[m.group(2)]
