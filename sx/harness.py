"""Static CrossHair harness functions (by arity) around a configurable CELL.

CELL = {"pre": callable(*ints) -> bool, "body": callable(*ints) -> bool}.  CrossHair reads the PEP316
docstrings below; the cell is configured by the worker before analysis.
"""
from __future__ import annotations

from typing import Any

CELL: dict[str, Any] = {}
LAST: dict[str, Any] = {}


def _pre(*a: int) -> bool:
    return bool(CELL["pre"](*a))


def _body(*a: int) -> bool:
    return bool(CELL["body"](*a))


def h1(a: int) -> bool:
    """
    pre: _pre(a)
    post: _
    """
    return _body(a)


def h2(a: int, b: int) -> bool:
    """
    pre: _pre(a, b)
    post: _
    """
    return _body(a, b)


def h3(a: int, b: int, c: int) -> bool:
    """
    pre: _pre(a, b, c)
    post: _
    """
    return _body(a, b, c)


def h4(a: int, b: int, c: int, d: int) -> bool:
    """
    pre: _pre(a, b, c, d)
    post: _
    """
    return _body(a, b, c, d)


def h5(a: int, b: int, c: int, d: int, e: int) -> bool:
    """
    pre: _pre(a, b, c, d, e)
    post: _
    """
    return _body(a, b, c, d, e)


def h6(a: int, b: int, c: int, d: int, e: int, f: int) -> bool:
    """
    pre: _pre(a, b, c, d, e, f)
    post: _
    """
    return _body(a, b, c, d, e, f)


def h7(a: int, b: int, c: int, d: int, e: int, f: int, g: int) -> bool:
    """
    pre: _pre(a, b, c, d, e, f, g)
    post: _
    """
    return _body(a, b, c, d, e, f, g)


def h8(a: int, b: int, c: int, d: int, e: int, f: int, g: int, h: int) -> bool:
    """
    pre: _pre(a, b, c, d, e, f, g, h)
    post: _
    """
    return _body(a, b, c, d, e, f, g, h)


def h9(a: int, b: int, c: int, d: int, e: int, f: int, g: int, h: int, i: int) -> bool:
    """
    pre: _pre(a, b, c, d, e, f, g, h, i)
    post: _
    """
    return _body(a, b, c, d, e, f, g, h, i)


def h10(a: int, b: int, c: int, d: int, e: int, f: int, g: int, h: int, i: int, j: int) -> bool:
    """
    pre: _pre(a, b, c, d, e, f, g, h, i, j)
    post: _
    """
    return _body(a, b, c, d, e, f, g, h, i, j)


BY_ARITY = {1: h1, 2: h2, 3: h3, 4: h4, 5: h5, 6: h6, 7: h7, 8: h8, 9: h9, 10: h10}
ARG_NAMES = ["a", "b", "c", "d", "e", "f", "g", "h", "i", "j"]
