"""Glue: a 'cell' = (spec, bounds on its parameters, oracles) -> CrossHair condition -> verdict; and the
native replay of a counterexample through the public API."""
from __future__ import annotations

import contextlib
import io
import time
from datetime import datetime
from typing import Any, Callable, Optional

from . import driver, harness, oracle, world
from .spec import Spec, inject, render


class Cell:
    """one condition: a spec with symbolic integer parameters in given ranges, judged by oracles"""

    def __init__(self, spec: Spec, ranges: dict[str, tuple[int, int]], oracles: list[Callable], extra_pre: Optional[Callable] = None,
                 need_scheduled: bool = True, pins_to_slots: bool = False, post_hook: Optional[Callable] = None):
        self.spec = spec
        self.names = spec.params()
        assert set(self.names) == set(ranges), (self.names, ranges)
        self.ranges = ranges
        self.oracles = oracles
        self.extra_pre = extra_pre
        self.defaults = {n: ranges[n][1] for n in self.names}  # horizon is computed from the largest values
        self.text = render(spec, None, self.defaults)
        self.fail_labels: list[str] = []
        self.need_scheduled = need_scheduled
        self.post_hook = post_hook
        # the slot length enters as one more symbolic integer PINNED by precondition (G == resolution): every
        # quotient the scheduler forms with it is then an exact symbolic term instead of an inexact double
        # constant such as 1/3600.0 (DESIGN section 4.2)
        self.arg_names = self.names + ["G"]

    def pre(self, *a: int) -> bool:
        if a[len(self.names)] != self.spec.resolution:
            return False
        for n, x in zip(self.names, a):
            lo, hi = self.ranges[n]
            if not (lo <= x <= hi):
                return False
        if self.extra_pre is not None and not self.extra_pre(dict(zip(self.names, a))):
            return False
        return True

    def judge(self, vals: dict, obs: dict, info: dict) -> list[str]:
        fails: list[str] = []
        for o in self.oracles:
            fails.extend(o(self.spec, vals, obs, info))
        return fails

    def body(self, *a: int) -> bool:
        vals = dict(zip(self.names, a))
        with world.notrace():
            project = world.parse(self.text)
            info = world.prepare(project)
        if len(a) > len(self.names):
            project.attributes["scheduleGranularity"] = a[len(self.names)]
        inject(self.spec, project, vals)
        warns = world.run_scenario(project, 0)
        obs = world.observe(project, 0, info)
        obs["warnings"] = warns
        obs["steps"] = world.LAST_STEPS[0]
        if self.post_hook is not None:
            self.post_hook(self, project, vals, obs, info)
        fails = self.judge(vals, obs, info)
        self.fail_labels = fails
        return not fails

    # ---- native replay through the public API -------------------------------------------
    def replay(self, vals: dict) -> dict:
        text = render(self.spec, vals, self.defaults)
        from scriptplan.parser.tjp_parser import ProjectFileParser

        err = io.StringIO()
        with contextlib.redirect_stderr(err), contextlib.redirect_stdout(io.StringIO()):
            project = ProjectFileParser().parse(text)  # parses AND schedules, extensions enabled
        info = {"base": project.attributes["start"], "g": project.attributes["scheduleGranularity"], "size": project.scoreboardSize()}
        info["onshift"] = {r.fullId: [bool(r.data[0].onShift(i)) for i in range(info["size"])] for r in project.resources if r.leaf()}
        info["wt"] = [project.isWorkingTime(i) for i in range(info["size"])]
        obs = world.observe(project, 0, info)
        obs["warnings"] = None  # warnings go to stderr in a public-API run; the traced run checks them
        obs["replay"] = True
        fails = self.judge(vals, obs, info)
        return {"reproduced": bool(fails), "detail": "; ".join(fails[:4]) if fails else "holds natively through the public API", "tjp": text}


def analyze_cell(cell: Cell, budget_s: float, path_timeout: float = 90.0) -> dict:
    from vlib import runner as R

    world.force_python_fallbacks()
    from .inttime import self_test

    self_test()
    n = len(cell.arg_names)
    if len(cell.names) == 0:
        # nothing symbolic: a single concrete run
        ok = cell.body()
        return {"status": R.DISCHARGED if ok else R.REFUTED, "paths": 1, "nontrivial": 0, "queries": 0, "solver_s": 0.0,
                "counterexamples": [] if ok else [{"label": "; ".join(cell.fail_labels[:3]), "inputs": {}}], "samples": [{}]}
    fn = harness.BY_ARITY[n]
    harness.CELL = {"pre": cell.pre, "body": cell.body}
    # reachability twin: the oracle replaced by False must be refuted (the harness reaches the judgement)
    t0 = time.time()
    res = driver.analyze(fn, budget_s, path_timeout)
    if "error" in res:
        return {"status": R.HARNESS_ERROR, "detail": res["error"]}
    out: dict[str, Any] = {"paths": res["iterations"], "nontrivial": max(0, res["iterations"] - 1), "queries": res["iterations"], "solver_s": res["wall_s"],
                           "samples": [{"params": cell.names, "ranges": cell.ranges, "crosshair": res["cx_status"], "exhausted": res["exhausted"]}]}
    kinds = [k for k, _m in res["messages"]]
    if "POST_FAIL" in kinds or "EXEC_ERR" in kinds or "POST_ERR" in kinds:
        cexs = []
        for k, m in res["messages"]:
            if k in ("POST_FAIL", "EXEC_ERR", "POST_ERR"):
                vals = driver.parse_counterexample(m, harness.ARG_NAMES[:n])
                if vals is None:
                    return {**out, "status": R.INCONCLUSIVE, "detail": f"unparsable counterexample: {m[:300]}"}
                named = dict(zip(cell.names, [vals[x] for x in harness.ARG_NAMES[:len(cell.names)]]))
                cexs.append({"label": k + ": " + m[:200], "inputs": named, "model_labels": [str(x)[:200] for x in cell.fail_labels[:3]]})
        return {**out, "status": R.REFUTED, "counterexamples": cexs, "detail": res["messages"][0][1][:300]}
    if "PRE_UNSAT" in kinds:
        return {**out, "status": R.HARNESS_ERROR, "detail": "precondition unsatisfiable / no path completed: " + str(res["messages"])[:300]}
    if res["exhausted"] and res["cx_status"] == "CONFIRMED":
        return {**out, "status": R.DISCHARGED, "detail": f"path tree exhausted, CONFIRMED, {res['iterations']} paths"}
    return {**out, "status": R.EXPLORED, "detail": f"not exhausted: crosshair status {res['cx_status']}, {res['iterations']} paths in {res['wall_s']} s"}
