"""Glue: a 'cell' = (spec, bounds on its parameters, oracles) -> CrossHair condition -> verdict; and the
native replay of a counterexample through the public API."""
from __future__ import annotations

import contextlib
import io
import time
from datetime import datetime
from typing import Any, Callable, Optional

from . import driver, harness, oracle, world
from .spec import Spec, inject, render


class Cell:
    """one condition: a spec with symbolic integer parameters in given ranges, judged by oracles"""

    def __init__(self, spec: Spec, ranges: dict[str, tuple[int, int]], oracles: list[Callable], extra_pre: Optional[Callable] = None,
                 need_scheduled: bool = True, pins_to_slots: bool = False, post_hook: Optional[Callable] = None):
        self.spec = spec
        self.names = spec.params()
        assert set(self.names) == set(ranges), (self.names, ranges)
        self.ranges = ranges
        self.oracles = oracles
        self.extra_pre = extra_pre
        self.defaults = {n: ranges[n][1] for n in self.names}  # replay rendering of parameters a counterexample leaves out
        # the project is parsed with a distinct MARKER per parameter (just above its range, so that the horizon is
        # computed from values at least as large as any in the range); inject() substitutes symbols for markers
        self.markers = {n: ranges[n][1] + 1 + i for i, n in enumerate(self.names)}
        self.text = render(spec, self.markers)
        self.fail_labels: list[str] = []
        self.need_scheduled = need_scheduled
        self.post_hook = post_hook
        # the slot length enters as one more symbolic integer PINNED by precondition (G == resolution): every
        # quotient the scheduler forms with it is then an exact symbolic term instead of an inexact double
        # constant such as 1/3600.0 (DESIGN section 4.2)
        self.arg_names = self.names + ["G"]

    def pre(self, *a: int) -> bool:
        if a[len(self.names)] != self.spec.resolution:
            return False
        for n, x in zip(self.names, a):
            lo, hi = self.ranges[n]
            if not (lo <= x <= hi):
                return False
        if self.extra_pre is not None and not self.extra_pre(dict(zip(self.names, a))):
            return False
        return True

    def judge(self, vals: dict, obs: dict, info: dict) -> list[str]:
        fails: list[str] = []
        for o in self.oracles:
            fails.extend(o(self.spec, vals, obs, info))
        return fails

    def body(self, *a: int) -> bool:
        vals = dict(zip(self.names, a))
        with world.notrace():
            project = world.parse(self.text)
            info = world.prepare(project)
        if len(a) > len(self.names):
            world.set_symbolic_granularity(project, a[len(self.names)], self.spec.resolution)
        inject(self.spec, project, vals, self.markers, [0])
        warns = world.run_scenario(project, 0)
        obs = world.observe(project, 0, info)
        obs["warnings"] = warns
        obs["steps"] = world.LAST_STEPS[0]
        if self.post_hook is not None:
            self.post_hook(self, project, vals, obs, info)
        fails = self.judge(vals, obs, info)
        self.fail_labels = fails
        return not fails

    # ---- native replay through the public API -------------------------------------------
    def replay(self, vals: dict) -> dict:
        text = render(self.spec, vals, self.defaults)
        from scriptplan.parser.tjp_parser import ProjectFileParser

        err = io.StringIO()
        try:
            with contextlib.redirect_stderr(err), contextlib.redirect_stdout(io.StringIO()):
                project = ProjectFileParser().parse(text)  # parses AND schedules, extensions enabled
        except Exception as e:  # noqa: BLE001
            return {"reproduced": True, "detail": f"parse()/schedule() of the rendered project raised {type(e).__name__}: {e}"[:300], "tjp": text}
        info = {"base": project.attributes["start"], "g": project.attributes["scheduleGranularity"], "size": project.scoreboardSize()}
        info["onshift"] = {r.fullId: [bool(r.data[0].onShift(i)) for i in range(info["size"])] for r in project.resources if r.leaf()}
        info["wt"] = [project.isWorkingTime(i) for i in range(info["size"])]
        obs = world.observe(project, 0, info)
        obs["warnings"] = None  # warnings go to stderr in a public-API run; the traced run checks them
        obs["replay"] = True
        fails = self.judge(vals, obs, info)
        return {"reproduced": bool(fails), "detail": "; ".join(fails[:4]) if fails else "holds natively through the public API", "tjp": text}


def analyze_cell(cell: Cell, budget_s: float, path_timeout: float = 90.0) -> dict:
    from vlib import runner as R

    world.force_python_fallbacks()
    from .inttime import self_test

    self_test()
    n = len(cell.arg_names)
    if len(cell.names) == 0:
        # nothing symbolic: a single concrete run
        ok = cell.body()
        return {"status": R.DISCHARGED if ok else R.REFUTED, "paths": 1, "nontrivial": 0, "queries": 0, "solver_s": 0.0,
                "counterexamples": [] if ok else [{"label": "; ".join(cell.fail_labels[:3]), "inputs": {}}], "samples": [{}]}
    fn = harness.BY_ARITY[n]
    harness.CELL = {"pre": cell.pre, "body": cell.body}
    # reachability twin: the oracle replaced by False must be refuted (the harness reaches the judgement)
    t0 = time.time()
    res = driver.analyze(fn, budget_s, path_timeout)
    if "error" in res:
        return {"status": R.HARNESS_ERROR, "detail": res["error"]}
    out: dict[str, Any] = {"paths": res["iterations"], "nontrivial": max(0, res["iterations"] - 1), "queries": res["iterations"], "solver_s": res["wall_s"],
                           "samples": [{"params": cell.names, "ranges": cell.ranges, "crosshair": res["cx_status"], "exhausted": res["exhausted"]}]}
    kinds = [k for k, _m in res["messages"]]
    if "POST_FAIL" in kinds or "EXEC_ERR" in kinds or "POST_ERR" in kinds:
        cexs = []
        for k, m in res["messages"]:
            if k in ("POST_FAIL", "EXEC_ERR", "POST_ERR"):
                vals = driver.parse_counterexample(m, harness.ARG_NAMES[:n])
                if vals is None:
                    return {**out, "status": R.INCONCLUSIVE, "detail": f"unparsable counterexample: {m[:300]}"}
                named = dict(zip(cell.names, [vals[x] for x in harness.ARG_NAMES[:len(cell.names)]]))
                cexs.append({"label": k + ": " + m[:200], "inputs": named, "model_labels": [str(x)[:200] for x in cell.fail_labels[:3]]})
        return {**out, "status": R.REFUTED, "counterexamples": cexs, "detail": res["messages"][0][1][:300]}
    if "PRE_UNSAT" in kinds:
        # CrossHair says this both for an unsatisfiable precondition and when every path timed out.  The largest values of the
        # ranges are a concrete witness of satisfiability: with it, "no path completed" is a time-out (inconclusive), not a vacuous harness
        import itertools

        sat = False
        try:
            for combo in itertools.islice(itertools.product(*[(cell.ranges[x][1], cell.ranges[x][0]) for x in cell.names]), 256):
                if cell.pre(*(list(combo) + [cell.spec.resolution])):
                    sat = True
                    break
        except Exception:  # noqa: BLE001
            sat = False
        if sat:
            return {**out, "status": R.INCONCLUSIVE, "detail": "no path completed within the per-path time limit (precondition is satisfiable: witness = largest values)"}
        return {**out, "status": R.HARNESS_ERROR, "detail": "precondition unsatisfiable: " + str(res["messages"])[:300]}
    if res["exhausted"] and res["cx_status"] == "CONFIRMED":
        return {**out, "status": R.DISCHARGED, "detail": f"path tree exhausted, CONFIRMED, {res['iterations']} paths"}
    return {**out, "status": R.EXPLORED, "detail": f"not exhausted: crosshair status {res['cx_status']}, {res['iterations']} paths in {res['wall_s']} s"}


class RelCell(Cell):
    """relational condition: several projects (specs) scheduled with the SAME symbolic values inside one traced call;
    `relation(specs, vals, observations, infos)` returns failure labels"""

    def __init__(self, specs: list[Spec], ranges: dict[str, tuple[int, int]], relation: Callable, extra_pre: Optional[Callable] = None,
                 scenarios: Optional[list[int]] = None, before_each: Optional[Callable] = None):
        self.specs = specs
        self.spec = specs[0]
        names: list[str] = []
        for s in specs:
            for n in s.params():
                if n not in names:
                    names.append(n)
        self.names = names
        assert set(names) == set(ranges), (names, ranges)
        self.ranges = ranges
        self.relation = relation
        self.extra_pre = extra_pre
        self.defaults = {n: ranges[n][1] for n in names}
        self.markers = {n: ranges[n][1] + 1 + i for i, n in enumerate(names)}
        self.texts = [render(s, self.markers) for s in specs]
        self.text = "\n# ----\n".join(self.texts)
        self.fail_labels = []
        self.arg_names = self.names + ["G"]
        self.scenarios = scenarios or [0] * len(specs)
        self.before_each = before_each
        self.post_hook = None

    def _one(self, k: int, vals: dict, G: Any) -> tuple[dict, dict]:
        spec = self.specs[k]
        scs = self.scenarios[k]
        sc_list = scs if isinstance(scs, list) else [scs]
        with world.notrace():
            if self.before_each is not None:
                self.before_each(k)
            project = world.parse(self.texts[k])
            info = world.prepare(project, scenario=sc_list[0])
        if G is not None:
            world.set_symbolic_granularity(project, G, spec.resolution)
        inject(spec, project, vals, self.markers)
        all_obs = []
        for n, sc in enumerate(sc_list):
            if n > 0:
                with world.notrace():
                    project.attributes._g_sym = None  # concrete while untraced
                    world.prepare_next_scenario(project, sc, info)
                project.attributes._g_sym = G
            warns = world.run_scenario(project, sc)
            obs = world.observe(project, sc, info)
            obs["warnings"] = warns
            all_obs.append(obs)
        if isinstance(scs, list):
            return {"by_scenario": all_obs}, info
        return all_obs[0], info

    def body(self, *a: int) -> bool:
        vals = dict(zip(self.names, a))
        G = a[len(self.names)] if len(a) > len(self.names) else None
        obs_l, info_l = [], []
        for k in range(len(self.specs)):
            o, i = self._one(k, vals, G)
            obs_l.append(o)
            info_l.append(i)
        fails = self.relation(self.specs, vals, obs_l, info_l)
        self.fail_labels = fails
        return not fails

    def replay(self, vals: dict) -> dict:
        from scriptplan.parser.tjp_parser import ProjectFileParser

        obs_l, info_l, texts = [], [], []
        for k, spec in enumerate(self.specs):
            text = render(spec, vals, self.defaults)
            texts.append(text)
            try:
                with contextlib.redirect_stderr(io.StringIO()), contextlib.redirect_stdout(io.StringIO()):
                    if self.before_each is not None:
                        self.before_each(k)
                    project = ProjectFileParser().parse(text)
            except Exception as e:  # noqa: BLE001
                return {"reproduced": True, "detail": f"parse()/schedule() of project {k} raised {type(e).__name__}: {e}"[:300], "tjp": text}
            info = {"base": project.attributes["start"], "g": project.attributes["scheduleGranularity"], "size": project.scoreboardSize()}
            info["onshift"] = {r.fullId: [bool(r.data[0].onShift(i)) for i in range(info["size"])] for r in project.resources if r.leaf()}
            scs = self.scenarios[k]
            if isinstance(scs, list):
                obs = {"by_scenario": [dict(world.observe(project, sc, info), warnings=None, replay=True) for sc in scs]}
            else:
                obs = world.observe(project, scs, info)
                obs["warnings"] = None
                obs["replay"] = True
            obs_l.append(obs)
            info_l.append(info)
        fails = self.relation(self.specs, vals, obs_l, info_l)
        return {"reproduced": bool(fails), "detail": "; ".join(fails[:4]) if fails else "holds natively through the public API", "tjp": "\n# ----\n".join(texts)}


def same_dates(tids: list[str], oa: dict, ob: dict, what: str, shift: Any = 0, map_b: Optional[Callable[[str], str]] = None) -> list[str]:
    fails = []
    for tid in tids:
        a = oa["tasks"][tid]
        b = ob["tasks"][map_b(tid) if map_b else tid]
        if bool(a["scheduled"]) != bool(b["scheduled"]):
            fails.append(f"{what}: {tid} scheduled={a['scheduled']} vs {b['scheduled']}")
            continue
        for k in ("start", "end"):
            x, y = a[k], b[k]
            if (x is None) != (y is None):
                fails.append(f"{what}: {tid} {k} {x} vs {y}")
            elif x is not None and x + shift != y:
                fails.append(f"{what}: {tid} {k} {x} vs {y}")
    return fails
