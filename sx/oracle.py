"""Independent oracles over an observation of a scheduled project.

Each oracle takes (spec, vals, obs, info) and returns a list of failure labels (empty = holds).
They work on symbolic values (under CrossHair) and on concrete ones (replay) alike, and they
re-derive everything they need (edges, calendars, limits) from the spec, never from the model.

obs  = sx.world.observe(): tasks[id] -> {leaf, scheduled, start, end (seconds from project start)},
       res[id] -> {leaf, ledger {slot: [(task id, seconds)]}, used {slot: seconds}, eff}
info = sx.world.prepare(): g (slot seconds), size, onshift {resource: [bool]}, wt [bool]
"""
from __future__ import annotations

from typing import Any, Optional

from .spec import Spec, Task, gap_seconds, val

TOL = 1.0  # the one-second rounding the properties grant to reported times
EPS = 1e-6


def _ledger_of(obs: dict, rid: str) -> dict:
    return obs["res"][rid]["ledger"]


def task_entries(obs: dict, rid: str, tid: str) -> list[tuple[int, Any, int]]:
    """[(slot, seconds, position in the slot's booking order)] of task tid on resource rid, by slot"""
    out = []
    for slot, lst in _ledger_of(obs, rid).items():
        for pos, (t, s) in enumerate(lst):
            if t == tid:
                out.append((slot, s, pos))
    out.sort(key=lambda x: x[0])
    return out


def leaf_resources(spec: Spec) -> list[str]:
    ids = []
    for r in spec.resources:
        if not any(x.parent == r.id for x in spec.resources):
            ids.append(rid(spec, r))
    return ids


def rid(spec: Spec, r: Any) -> str:
    return r.id if not r.parent else f"{rid(spec, next(x for x in spec.resources if x.id == r.parent))}.{r.id}"


def res_by_leaf_id(spec: Spec, leaf: str) -> Any:
    return next(r for r in spec.resources if r.id == leaf.split(".")[-1])


# ---- C01 ------------------------------------------------------------------------------------

def no_double_booking(spec: Spec, vals: dict, obs: dict, info: dict) -> list[str]:
    g = info["g"]
    fails: list[str] = []
    for r_id, r in obs["res"].items():
        if not r["leaf"]:
            continue
        for slot, lst in r["ledger"].items():
            total = 0
            for _t, s in lst:
                if s < -EPS:
                    fails.append(f"C01 negative booking on {r_id} slot {slot}")
                total = total + s
            if total > g + EPS:
                fails.append(f"C01 {r_id} slot {slot}: {total} s booked in a slot of {g} s")
            used = r["used"].get(slot, 0)
            if used > g + EPS or used + EPS < total:
                fails.append(f"C01 {r_id} slot {slot}: used-seconds counter {used} inconsistent with bookings {total}")
            # layout: the portions can be placed inside the slot without overlapping, each inside the window its task's
            # reported dates leave it: from the task's start if this is its first booked slot, up to its end if this is its
            # last.  Feasibility (one machine, release/deadline windows, preemption allowed) = for every window [a, b] built
            # from those endpoints, the portions whose windows lie inside [a, b] sum to at most b - a.
            lo, hi = slot * g, (slot + 1) * g
            wins: list[tuple[str, Any, Any, Any]] = []
            for t_id, s in lst:
                if s <= EPS:
                    continue
                t = obs["tasks"][t_id]
                if t["start"] is None or t["end"] is None:
                    continue
                mine = [sl for sl, l2 in r["ledger"].items() if any(x == t_id and y > EPS for x, y in l2)]
                a = t["start"] if (slot == min(mine) and t["start"] > lo) else lo
                b = t["end"] if (slot == max(mine) and t["end"] < hi) else hi
                wins.append((t_id, a, b, s))
            for (_i, a, _b, _s) in wins:
                for (_j, _a2, b, _s2) in wins:
                    if not (b > a):
                        continue
                    need = 0
                    inside = []
                    for (k, wa, wb, ws) in wins:
                        if wa >= a and wb <= b:
                            need = need + ws
                            inside.append(k)
                    if len(inside) > 1 and need - (b - a) > TOL * len(inside):
                        fails.append(f"C01 {r_id} slot {slot}: tasks {inside} need {need} s inside a window of {b - a} s of the slot - their reported portions overlap")
    return fails


# ---- C03 ------------------------------------------------------------------------------------

def effort_exact(spec: Spec, vals: dict, obs: dict, info: dict) -> list[str]:
    fails: list[str] = []
    for t in spec.tasks:
        tid = spec.full_id(t)
        if not spec.is_leaf(t) or t.effort is None:
            continue
        o = obs["tasks"][tid]
        cands = [c for c in [t.alloc] + [[a] for a in t.alt] if c]   # the primary allocation (a team if several), or ONE of the alternatives
        booked_sets = []
        for cand in cands:
            ents = [task_entries(obs, _leaf_path(spec, r), tid) for r in cand]
            if any(ents):
                booked_sets.append((cand, ents))
        if not o["scheduled"]:
            continue
        eff_s = spec.eval_effort(t.effort, vals)
        if eff_s <= 0:
            continue
        if len(booked_sets) != 1:
            fails.append(f"C03 {tid}: {len(booked_sets)} of its candidate allocations carry bookings (exactly one expected)")
            continue
        cand, ents = booked_sets[0]
        # team: all members are booked for the same slots and the same seconds
        first = [(s, sec) for s, sec, _p in ents[0]]
        for other in ents[1:]:
            oth = [(s, sec) for s, sec, _p in other]
            if len(oth) != len(first):
                fails.append(f"C03 {tid}: team members are booked for different slots")
                break
            for (s1, c1), (s2, c2) in zip(first, oth):
                if s1 != s2 or c1 - c2 > TOL or c2 - c1 > TOL:
                    fails.append(f"C03 {tid}: team members are not booked for the same instants (slot {s1}: {c1} s vs slot {s2}: {c2} s)")
                    break
        eff = max(res_by_leaf_id(spec, r).eff for r in cand)
        work = 0
        for _slot, sec, _p in ents[0]:
            work = work + sec
        credited = work * eff  # effort seconds
        if credited - eff_s > eff * TOL + EPS or eff_s - credited > eff * TOL + EPS:
            fails.append(f"C03 {tid}: booked {work} s x efficiency {eff} = {credited} effort-seconds, requested {eff_s}")
    return fails


def _leaf_path(spec: Spec, rname: str) -> str:
    r = next(x for x in spec.resources if x.id == rname)
    return rid(spec, r)


# ---- C06 ------------------------------------------------------------------------------------

def framed(spec: Spec, vals: dict, obs: dict, info: dict) -> list[str]:
    g = info["g"]
    fails: list[str] = []
    for t in spec.tasks:
        tid = spec.full_id(t)
        o = obs["tasks"][tid]
        if not spec.is_leaf(t) or not o["scheduled"]:
            continue
        if o["start"] is None or o["end"] is None:
            fails.append(f"C06 {tid}: scheduled without dates")
            continue
        if o["start"] > o["end"]:
            fails.append(f"C06 {tid}: start {o['start']} > end {o['end']}")
        if t.effort is None and not t.alloc and t.duration is None and o["forward"] is not False and t.start is None and t.end is None:
            # a milestone has start = end at its dependency bound
            b = dep_bound(spec, vals, obs, tid)
            if o["start"] != o["end"]:
                fails.append(f"C06 milestone {tid}: start {o['start']} != end {o['end']}")
            elif b is not None and (o["start"] - b > TOL or b - o["start"] > TOL):
                fails.append(f"C06 milestone {tid}: placed at {o['start']}, its dependency bound is {b}")
            continue
        slots: dict[int, Any] = {}
        for r_id, r in obs["res"].items():
            for slot, lst in r["ledger"].items():
                for t_id, s in lst:
                    if t_id == tid and s > EPS:
                        cur = slots.get(slot, 0)
                        slots[slot] = s if s > cur else cur
        if not slots:
            continue
        if not (o["end"] - o["start"] > 0):
            fails.append(f"C06 {tid}: has booked work but zero/negative length")
        first, last = min(slots), max(slots)
        # all work inside [start, end], tight: booked in the slot where it starts and where it ends
        if not (first * g <= o["start"] + EPS and o["start"] <= (first + 1) * g + EPS):
            fails.append(f"C06 {tid}: first booked slot {first} is not the slot of its start {o['start']}")
        # (a last slot holding less than the rounding tolerance of work may round down to the slot's own begin)
        if not (last * g <= o["end"] + EPS and o["end"] <= (last + 1) * g + EPS):
            fails.append(f"C06 {tid}: last booked slot {last} is not the slot of its end {o['end']}")
        # long enough to contain the work booked in those slots
        if first != last:
            if slots[first] - ((first + 1) * g - o["start"]) > TOL:
                fails.append(f"C06 {tid}: {slots[first]} s booked in its first slot but only {(first + 1) * g - o['start']} s after its start")
            if slots[last] - (o["end"] - last * g) > TOL:
                fails.append(f"C06 {tid}: {slots[last]} s booked in its last slot but its end leaves only {o['end'] - last * g} s")
        elif slots[first] - (o["end"] - o["start"]) > TOL:
            fails.append(f"C06 {tid}: {slots[first]} s booked but the interval is only {o['end'] - o['start']} s long")
    return fails


# ---- C04 ------------------------------------------------------------------------------------

def all_edges(spec: Spec) -> list[tuple[str, str, int, bool]]:
    """(successor leaf, predecessor, gap seconds, onstart) incl. inherited from containers and 'precedes'"""
    own: dict[str, list[tuple[str, int, bool]]] = {}
    for t in spec.tasks:
        tid = spec.full_id(t)
        for d in t.deps:
            own.setdefault(tid, []).append((d.on, gap_seconds(d.gap), d.onstart))
        for tgt in t.precedes:
            own.setdefault(tgt, []).append((tid, 0, False))
    edges = []
    for t in spec.tasks:
        tid = spec.full_id(t)
        parts = tid.split(".")
        for k in range(1, len(parts) + 1):
            anc = ".".join(parts[:k])
            for (p, gsec, onstart) in own.get(anc, []):
                edges.append((tid, p, gsec, onstart))
    return edges


def deps_respected(spec: Spec, vals: dict, obs: dict, info: dict) -> list[str]:
    fails: list[str] = []
    for (succ, pred, gsec, onstart) in all_edges(spec):
        s, p = obs["tasks"][succ], obs["tasks"][pred]
        st = spec.task(succ)
        if not s["scheduled"] or s["start"] is None:
            continue
        fwd = s["forward"] is not False
        if (fwd and st.start is not None) or (not fwd and st.end is not None):
            continue  # the user pinned a date of its own
        if not fwd and onstart:
            continue  # not claimed
        ref = p["start"] if (onstart and fwd) else p["end"]
        if ref is None:
            if p["scheduled"]:
                fails.append(f"C04 {succ}: predecessor {pred} scheduled without dates")
            continue
        if s["start"] + TOL < ref + gsec:
            fails.append(f"C04 {succ} starts at {s['start']} before {pred} {'start' if onstart else 'end'} {ref} + gap {gsec}")
    return fails


# ---- C08 ------------------------------------------------------------------------------------

def dep_bound(spec: Spec, vals: dict, obs: dict, tid: str) -> Any:
    """earliest instant (seconds) the forward task may start: project start, pinned start, edges"""
    t = spec.task(tid)
    if t.start is not None:
        return spec.tval(t.start, vals)
    # a pinned start is inherited from the enclosing containers
    parts = tid.split(".")
    for k in range(len(parts) - 1, 0, -1):
        anc = spec.task(".".join(parts[:k]))
        if anc.start is not None:
            return spec.tval(anc.start, vals)
    b: Any = 0
    for (succ, pred, gsec, onstart) in all_edges(spec):
        if succ != tid:
            continue
        p = obs["tasks"][pred]
        ref = p["start"] if onstart else p["end"]
        if ref is None:
            return None
        if ref + gsec > b:
            b = ref + gsec
    return b


def no_idle_forward(spec: Spec, vals: dict, obs: dict, info: dict) -> list[str]:
    g = info["g"]
    fails: list[str] = []
    for t in spec.tasks:
        tid = spec.full_id(t)
        o = obs["tasks"][tid]
        if not spec.is_leaf(t) or t.effort is None or not o["scheduled"] or o["forward"] is False:
            continue
        if t.limits or "contiguous" in t.flags or t.alt:
            continue
        if any(res_by_leaf_id(spec, r).limits or _anc_limits(spec, r) for r in t.alloc) or _task_anc_limits(spec, t):
            continue
        if spec.eval_effort(t.effort, vals) <= 0:
            continue
        bound = dep_bound(spec, vals, obs, tid)
        if bound is None:
            continue
        members = [_leaf_path(spec, r) for r in t.alloc]
        mine = {slot: (sec, pos) for slot, sec, pos in task_entries(obs, members[0], tid)}
        if not mine:
            continue
        last = max(mine)
        first_possible = int(bound // g) if not isinstance(bound, int) else bound // g
        for slot in range(first_possible, last + 1):
            if slot in mine:
                continue
            if slot < 0 or slot >= info["size"]:
                continue
            # eligible: every member on shift and with free seconds in the final ledger
            elig = True
            for m in members:
                if not info["onshift"][m][slot]:
                    elig = False
                    break
                # free = what the scheduler can still hand out in this slot. The used-seconds counter also covers an idle
                # prefix nobody owns (dependency offset, a team member waiting for its partner): slots are filled from their
                # beginning only, such a slot is not "unbooked" in the sense of the property
                free = g - obs["res"][m]["used"].get(slot, 0)
                if slot == first_possible:
                    # only the part of the bound's own slot after the bound is eligible
                    usable = (slot + 1) * g - bound
                    if usable < free:
                        free = usable
                if not (free > TOL):
                    elig = False
                    break
            if elig:
                fails.append(f"C08 {tid}: slot {slot} is working, has free time on {members} and lies between its bound {bound} and its end, but was not used")
        # the task starts as soon as its first slot allows.  Slots are filled from their beginning in scheduling order (the ledger
        # records amounts, not positions), so the position of a booking is reconstructed here from the spec and the ledger: every
        # earlier booking in the slot starts where the previous one ended, not before its own dependency bound if that bound lies in
        # this slot, and - for a team - not before its partners can start.  (An idle prefix created that way is not handed out to
        # tasks scheduled later; the claim is relative to this fill-from-the-beginning model, see DESIGN section 12.)
        fs = min(mine)
        exp = fs * g + slot_position(spec, vals, obs, info, fs, tid, members, {})
        if bound > exp:
            exp = bound
        if o["start"] - exp > TOL:
            fails.append(f"C08 {tid}: starts at {o['start']} although its resource is free for it from {exp}")
    return fails


def slot_position(spec: Spec, vals: dict, obs: dict, info: dict, slot: int, tid: str, members: list, memo: dict) -> Any:
    """offset (seconds into the slot) at which task tid's booking in `slot` can begin under the fill-from-the-beginning model"""
    g = info["g"]
    if tid in memo:
        return memo[tid]
    memo[tid] = 0  # cycle guard
    pos: Any = 0
    for m in members:
        p_m: Any = 0
        for (u, secs_u) in obs["res"][m]["ledger"].get(slot, []):
            if u == tid:
                break
            ut = spec.task(u)
            u_members = [_leaf_path(spec, r) for r in (ut.alloc if any(task_entries(obs, _leaf_path(spec, r), u) for r in ut.alloc) else [a for a in ut.alt if task_entries(obs, _leaf_path(spec, a), u)])]
            start_u = slot_position(spec, vals, obs, info, slot, u, u_members, memo)
            end_u = start_u + secs_u
            if end_u > p_m:
                p_m = end_u
        if p_m > pos:
            pos = p_m
    # the task's own dependency bound, if it lies inside this slot
    if obs["tasks"][tid]["forward"] is not False:
        b = dep_bound(spec, vals, obs, tid)
        if b is not None and b > slot * g and b < (slot + 1) * g and b - slot * g > pos:
            pos = b - slot * g
    memo[tid] = pos
    return pos


def _anc_limits(spec: Spec, rname: str) -> bool:
    r = next(x for x in spec.resources if x.id == rname)
    while r.parent:
        r = next(x for x in spec.resources if x.id == r.parent)
        if r.limits:
            return True
    return False


def _task_anc_limits(spec: Spec, t: Task) -> bool:
    parts = spec.full_id(t).split(".")
    for k in range(1, len(parts)):
        if spec.task(".".join(parts[:k])).limits:
            return True
    return False


# ---- C10 ------------------------------------------------------------------------------------

def containers_ok(spec: Spec, vals: dict, obs: dict, info: dict) -> list[str]:
    fails: list[str] = []
    leaves = {spec.full_id(t) for t in spec.tasks if spec.is_leaf(t)}
    for t in spec.tasks:
        tid = spec.full_id(t)
        kids = spec.children(tid)
        if not kids:
            continue
        o = obs["tasks"][tid]
        ko = [obs["tasks"][spec.full_id(k)] for k in kids]
        all_s = all(k["scheduled"] for k in ko)
        if bool(o["scheduled"]) != bool(all_s):
            fails.append(f"C10 container {tid}: scheduled={o['scheduled']} but all-children-scheduled={all_s}")
        if o["scheduled"] and all_s:
            starts = [k["start"] for k in ko]
            ends = [k["end"] for k in ko]
            if any(x is None for x in starts + ends) or o["start"] is None or o["end"] is None:
                fails.append(f"C10 container {tid}: missing dates")
                continue
            mn = starts[0]
            for x in starts[1:]:
                if x < mn:
                    mn = x
            mx = ends[0]
            for x in ends[1:]:
                if x > mx:
                    mx = x
            if o["start"] != mn:
                fails.append(f"C10 container {tid}: start {o['start']} != earliest child start {mn}")
            if o["end"] != mx:
                fails.append(f"C10 container {tid}: end {o['end']} != latest child end {mx}")
    for r_id, r in obs["res"].items():
        for slot, lst in r["ledger"].items():
            for t_id, _s in lst:
                if t_id not in leaves:
                    fails.append(f"C10 container task {t_id} occupies {r_id} slot {slot}")
            if not r["leaf"] and lst:
                fails.append(f"C10 resource group {r_id} has bookings")
    return fails


# ---- C02 (whole-run half) -----------------------------------------------------------------

def booked_on_shift(spec: Spec, vals: dict, obs: dict, info: dict, calendar: Optional[dict] = None) -> list[str]:
    """every ledger entry lies in a slot of the independently computed calendar"""
    fails: list[str] = []
    cal = calendar or info.get("ref_calendar") or {}
    for r_id, r in obs["res"].items():
        if not r["leaf"] or r_id not in cal:
            continue
        for slot, lst in r["ledger"].items():
            if any(s > EPS for _t, s in lst) and not cal[r_id][slot]:
                fails.append(f"C02 {r_id}: work booked in slot {slot}, outside its working time")
    return fails


# ---- C05 ------------------------------------------------------------------------------------

def _limit_seconds(txt: str) -> int:
    import re

    m = re.match(r"(\d+(?:\.\d+)?)(h|d|min)$", txt)
    assert m, txt
    return int(float(m.group(1)) * {"h": 3600, "d": 8 * 3600, "min": 60}[m.group(2)])


def limits_respected(spec: Spec, vals: dict, obs: dict, info: dict) -> list[str]:
    """per calendar day / ISO week (computed here from the spec's start date) the seconds booked on a limited resource,
    on all members of a limited group, or by all tasks below a limited task never exceed the limit"""
    from datetime import timedelta

    g = info["g"]
    fails: list[str] = []

    def period_key(kind: str, slot: int) -> Any:
        d = spec.start + timedelta(seconds=slot * g)
        if kind == "dailymax":
            return d.date().toordinal()
        iso = d.isocalendar()
        return (iso[0], iso[1])

    def check(what: str, kind: str, limit_txt: str, entries: list[tuple[int, Any]]) -> None:
        lim = _limit_seconds(limit_txt)
        per: dict[Any, Any] = {}
        for slot, sec in entries:
            k = period_key(kind, slot)
            per[k] = per.get(k, 0) + sec
        for k, tot in per.items():
            if tot > lim + TOL:
                fails.append(f"C05 {what}: {tot} s booked in period {k} exceed {kind} {limit_txt}")

    res_children: dict[str, list[str]] = {}
    for r in spec.resources:
        res_children.setdefault(r.parent or "", []).append(r.id)

    def leaves_below(rname: str) -> list[str]:
        kids = res_children.get(rname, [])
        if not kids:
            return [rname]
        out: list[str] = []
        for k in kids:
            out.extend(leaves_below(k))
        return out

    for r in spec.resources:
        for kind, txt in r.limits.items():
            entries = []
            for leaf in leaves_below(r.id):
                for slot, lst in obs["res"][_leaf_path(spec, leaf)]["ledger"].items():
                    for _t, sec in lst:
                        entries.append((slot, sec))
            check(f"resource {r.id}", kind, txt, entries)
    for t in spec.tasks:
        if not t.limits:
            continue
        tid = spec.full_id(t)
        for kind, txt in t.limits.items():
            entries = []
            for _rid, r in obs["res"].items():
                for slot, lst in r["ledger"].items():
                    for t_id, sec in lst:
                        if t_id == tid or t_id.startswith(tid + "."):
                            entries.append((slot, sec))
            check(f"task {tid}", kind, txt, entries)
    return fails


# ---- C11 ------------------------------------------------------------------------------------

def total_ok(spec: Spec, vals: dict, obs: dict, info: dict) -> list[str]:
    fails: list[str] = []
    horizon = (info["size"]) * info["g"]
    warned = bool(obs.get("warnings"))
    for t in spec.tasks:
        tid = spec.full_id(t)
        if not spec.is_leaf(t):
            continue
        o = obs["tasks"][tid]
        if o["scheduled"]:
            if o["start"] is None or o["end"] is None:
                fails.append(f"C11 {tid}: scheduled without dates")
            elif not (0 <= o["start"] and o["start"] <= o["end"] and o["end"] <= horizon):
                fails.append(f"C11 {tid}: scheduled outside the horizon or inverted: {o['start']} .. {o['end']} (horizon {horizon})")
        elif not warned and obs.get("warnings") is not None and not obs.get("replay"):
            fails.append(f"C11 {tid}: left unscheduled without any warning")
    steps = obs.get("steps")
    if steps is not None:
        n_leaf = sum(1 for t in spec.tasks if spec.is_leaf(t))
        if steps > (n_leaf + 1) * (info["size"] + 2) * 3:
            fails.append(f"C11: {steps} slot steps for {n_leaf} leaves and {info['size']} slots - not proportional to project size")
    return fails


ORACLES = {
    "C01": no_double_booking,
    "C03": effort_exact,
    "C06": framed,
    "C04": deps_respected,
    "C08": no_idle_forward,
    "C10": containers_ok,
    "C02": booked_on_shift,
    "C05": limits_respected,
    "C11": total_ok,
}


# ---- C07 ------------------------------------------------------------------------------------

def matches_reference(spec: Spec, vals: dict, obs: dict, info: dict) -> list[str]:
    from .reference import reference_schedule

    ref = reference_schedule(spec, vals, info)
    fails: list[str] = []
    for tid, r in ref.items():
        o = obs["tasks"][tid]
        if bool(o["scheduled"]) != bool(r["scheduled"]):
            fails.append(f"C07 {tid}: scheduled={o['scheduled']} but the reference list scheduler says {r['scheduled']}")
            continue
        if not r["scheduled"]:
            continue
        if o["start"] != r["start"] or o["end"] != r["end"]:
            fails.append(f"C07 {tid}: {o['start']}..{o['end']} but the reference list scheduler gives {r['start']}..{r['end']}")
    return fails


ORACLES["C07"] = matches_reference


# ---- C08 backward -----------------------------------------------------------------------------

def alap_deadline(spec: Spec, vals: dict, obs: dict, info: dict, tid: str) -> Any:
    """latest instant an ALAP task may end: own end, an enclosing container's end, earliest successor start minus gap, project end"""
    t = spec.task(tid)
    dl: Any = (info["size"] - 1) * info["g"]
    parts = tid.split(".")
    for k in range(len(parts), 0, -1):
        anc = spec.task(".".join(parts[:k]))
        if anc.end is not None:
            e = spec.tval(anc.end, vals)
            if e < dl:
                dl = e
    for (succ, pred, gsec, onstart) in all_edges(spec):
        if pred != tid and not tid.startswith(pred + "."):
            continue
        if onstart:
            continue
        s = obs["tasks"][succ]
        if spec.is_leaf(spec.task(succ)) and s["start"] is not None and s["start"] - gsec < dl:
            dl = s["start"] - gsec
    return dl


def no_idle_backward(spec: Spec, vals: dict, obs: dict, info: dict) -> list[str]:
    g = info["g"]
    fails: list[str] = []
    for t in spec.tasks:
        tid = spec.full_id(t)
        o = obs["tasks"][tid]
        if not spec.is_leaf(t) or t.effort is None or not o["scheduled"] or o["forward"] is not False or not t.alloc or t.alt:
            continue
        if t.limits or _task_anc_limits(spec, t) or any(res_by_leaf_id(spec, r).limits or _anc_limits(spec, r) for r in t.alloc):
            continue
        dl = alap_deadline(spec, vals, obs, info, tid)
        if o["end"] - dl > TOL:
            fails.append(f"C08 ALAP {tid}: ends at {o['end']}, after its deadline {dl}")
            continue
        members = [_leaf_path(spec, r) for r in t.alloc]
        first_after = int(-(-o["end"] // g))  # first slot that begins at or after the end
        last = int(dl // g)  # slots ending at or before the deadline: < last
        for slot in range(first_after, last):
            if slot < 0 or slot >= info["size"]:
                continue
            if all(info["onshift"][m][slot] and not obs["res"][m]["ledger"].get(slot) for m in members):
                fails.append(f"C08 ALAP {tid}: slot {slot} is working and unbooked on {members} between its end {o['end']} and its deadline {dl}")
                break
    return fails


ORACLES["C08b"] = no_idle_backward
