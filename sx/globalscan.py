"""AST scan of the current tree for process-wide state that package code writes (C12)."""
from __future__ import annotations

import ast
import os
from typing import Any

REPO = os.environ.get("VERIF_REPO", "/repo")


def scan() -> list[dict[str, Any]]:
    root = os.path.join(REPO, "scriptplan")
    classes: set[str] = set()
    trees = {}
    for dp, _dn, fns in os.walk(root):
        for fn in fns:
            if fn.endswith(".py"):
                p = os.path.join(dp, fn)
                try:
                    t = ast.parse(open(p).read())
                except SyntaxError:
                    continue
                trees[p] = t
                for n in ast.walk(t):
                    if isinstance(n, ast.ClassDef):
                        classes.add(n.name)
    found = []
    for p, t in trees.items():
        rel = os.path.relpath(p, REPO)
        for fn in ast.walk(t):
            if not isinstance(fn, (ast.FunctionDef, ast.AsyncFunctionDef)):
                continue
            for n in ast.walk(fn):
                if isinstance(n, ast.Global):
                    for name in n.names:
                        found.append({"file": rel, "line": n.lineno, "kind": "global", "target": name, "func": fn.name})
                tgts = []
                if isinstance(n, ast.Assign):
                    tgts = n.targets
                elif isinstance(n, (ast.AugAssign, ast.AnnAssign)):
                    tgts = [n.target]
                for tg in tgts:
                    if isinstance(tg, ast.Attribute) and isinstance(tg.value, ast.Name) and (tg.value.id in classes or tg.value.id == "cls"):
                        found.append({"file": rel, "line": n.lineno, "kind": "class-attr", "target": f"{tg.value.id}.{tg.attr}", "func": fn.name})
                if isinstance(n, ast.Call) and isinstance(n.func, ast.Attribute) and n.func.attr in ("setLevel", "basicConfig") :
                    found.append({"file": rel, "line": n.lineno, "kind": "logging", "target": ast.unparse(n.func), "func": fn.name})
    return found


if __name__ == "__main__":
    for f in scan():
        print(f)
