"""IntTime - the project clock as one integer (seconds since the project base), so that CrossHair
compares instants with a single integer comparison instead of forking per datetime field."""
from __future__ import annotations

from datetime import datetime, timedelta
from typing import Any


def _o(o: Any) -> Any:
    """seconds of the other operand of a comparison (IntTime, or a real datetime measured from IntTime.BASE)"""
    if isinstance(o, IntTime):
        return o.s
    if isinstance(o, datetime) and IntTime.BASE is not None:
        return int((o - IntTime.BASE).total_seconds())
    raise TypeError(f"cannot compare IntTime with {type(o).__name__}")


class IntTime:
    __slots__ = ("s",)
    BASE: Any = None  # the real project start (set when the clock is switched); lets IntTime meet concrete datetimes

    def __init__(self, s: Any):
        self.s = s

    def __rsub__(self, o: Any) -> Any:
        if isinstance(o, datetime):
            return ITDelta(_o(o) - self.s)
        return NotImplemented

    def weekday(self) -> Any:
        return (IntTime.BASE.weekday() + self.s // 86400) % 7

    @property
    def hour(self) -> Any:
        return (self.s % 86400) // 3600

    @property
    def minute(self) -> Any:
        return (self.s % 3600) // 60

    def __add__(self, o: Any) -> Any:
        if isinstance(o, timedelta):
            return IntTime(self.s + _secs(o))
        return NotImplemented

    __radd__ = __add__

    def __sub__(self, o: Any) -> Any:
        if isinstance(o, (IntTime, datetime)):
            return ITDelta(self.s - _o(o))
        if isinstance(o, ITDelta):
            return IntTime(self.s - o.secs)
        if isinstance(o, timedelta):
            return IntTime(self.s - _secs(o))
        return NotImplemented

    def __lt__(self, o: Any) -> Any:
        return self.s < _o(o)

    def __le__(self, o: Any) -> Any:
        return self.s <= _o(o)

    def __gt__(self, o: Any) -> Any:
        return self.s > _o(o)

    def __ge__(self, o: Any) -> Any:
        return self.s >= _o(o)

    def __eq__(self, o: Any) -> Any:
        return isinstance(o, (IntTime, datetime)) and self.s == _o(o)

    def __ne__(self, o: Any) -> Any:
        return not isinstance(o, (IntTime, datetime)) or self.s != _o(o)

    def __hash__(self) -> int:
        return hash(self.s)

    def __bool__(self) -> bool:
        return True

    def __repr__(self) -> str:
        return f"IntTime({self.s!r})"


class ITDelta:
    """difference of two IntTimes (what the scheduler asks of it: total_seconds())"""

    __slots__ = ("secs",)

    def __init__(self, secs: Any):
        self.secs = secs

    def total_seconds(self) -> Any:
        return self.secs

    def __repr__(self) -> str:
        return f"ITDelta({self.secs!r})"


def _secs(td: Any) -> Any:
    """seconds of a (possibly symbolic) timedelta as a number; whole seconds stay ints"""
    if isinstance(td, ITDelta):
        return td.secs
    d, s, us = td.days, td.seconds, td.microseconds
    if isinstance(us, int) and us == 0:
        return d * 86400 + s
    return d * 86400 + s + us / 1000000.0


def to_int(dt: Any, base: datetime) -> Any:
    if dt is None or isinstance(dt, IntTime):
        return dt
    return IntTime(int((dt - base).total_seconds()))


def to_dt(x: Any, base: datetime) -> Any:
    if isinstance(x, IntTime):
        return base + timedelta(seconds=float(x.s))
    return x


def self_test() -> None:
    base = datetime(2025, 1, 6)
    for a in (0, 59, 3600, 86399, 90000):
        for b in (0, 1, 1800, 86400):
            assert to_dt(IntTime(a) + timedelta(seconds=b), base) == base + timedelta(seconds=a + b)
            assert (IntTime(a) - IntTime(b)).total_seconds() == (to_dt(IntTime(a), base) - to_dt(IntTime(b), base)).total_seconds()
            assert (IntTime(a) < IntTime(b)) == (a < b)
