"""Independent reference calendar computed from a spec (never from the model): which slots of the horizon are working
time of a leaf resource.  Hours are evaluated in the resource's time zone (zoneinfo), vacations / leaves in project time."""
from __future__ import annotations

import re
from datetime import datetime, timedelta, timezone
from typing import Any, Optional
from zoneinfo import ZoneInfo

from .spec import Res, Spec

DAYS = ["mon", "tue", "wed", "thu", "fri", "sat", "sun"]


def parse_hours(lines: list[str]) -> dict[int, list[tuple[int, int]]]:
    """'mon - fri 9:00 - 12:00, 13:00 - 18:00' -> {0: [(540, 720), (780, 1080)], ...} (minutes; end <= start = crosses midnight)"""
    out: dict[int, list[tuple[int, int]]] = {}
    for ln in lines:
        m = re.match(r"^\s*([a-z ,\-]+?)\s+(\d.*|off)$", ln.strip())
        assert m, ln
        dspec, rspec = m.group(1).strip(), m.group(2).strip()
        days: list[int] = []
        for part in dspec.split(","):
            part = part.strip()
            if "-" in part:
                a, b = [DAYS.index(x.strip()) for x in part.split("-")]
                k = a
                while True:
                    days.append(k)
                    if k == b:
                        break
                    k = (k + 1) % 7
            else:
                days.append(DAYS.index(part))
        ranges: list[tuple[int, int]] = []
        if rspec != "off":
            for r in rspec.split(","):
                a, b = [x.strip() for x in r.split(" - ")]
                ah, am = [int(x) for x in a.split(":")]
                bh, bm = [int(x) for x in b.split(":")]
                ranges.append((ah * 60 + am, bh * 60 + bm))
        for d in days:
            out.setdefault(d, []).extend(ranges)
    return out


def _date_interval(txt: str) -> tuple[datetime, datetime]:
    """'2025-01-07' -> that day; '2025-01-08 - 2025-01-10' -> [start, end)"""
    parts = [p.strip() for p in txt.split(" - ")]
    a = datetime.strptime(parts[0], "%Y-%m-%d")
    if len(parts) == 1:
        return a, a + timedelta(days=1)
    return a, datetime.strptime(parts[1], "%Y-%m-%d")


def in_hours(hours: dict[int, list[tuple[int, int]]], wd: int, minute: int) -> bool:
    now = wd * 1440 + minute
    for d, rs in hours.items():
        for (s, e) in rs:
            a = d * 1440 + s
            b = d * 1440 + e if e > s else (d + 1) * 1440 + e
            if a <= now < b or a <= now + 10080 < b:
                return True
    return False


def ref_calendar(spec: Spec, size: int, g: int) -> dict[str, list[bool]]:
    from .oracle import rid

    vac = [_date_interval(v) for v in spec.vacations] + [_date_interval(v) for v in spec.global_leaves]
    out = {}
    for r in spec.resources:
        if any(x.parent == r.id for x in spec.resources):
            continue
        lines = r.hours or (spec.shifts.get(r.shift) if r.shift else None)
        hours = parse_hours(lines) if lines else None
        away = [_date_interval(re.sub(r"^\w+\s+", "", ln)) for ln in r.leaves] + [_date_interval(v) for v in r.vacation]
        for (when, dur) in r.bookings:
            # calendar durations as in TaskJuggler: d = 24 h, w = 7 d, m = 30.4167 d, y = 365 d
            m_ = re.match(r"(\d+(?:\.\d+)?)(min|h|d|w|m|y)$", dur)
            assert m_, dur
            a_ = datetime.strptime(when, "%Y-%m-%d-%H:%M")
            away.append((a_, a_ + timedelta(seconds=float(m_.group(1)) * {"min": 60, "h": 3600, "d": 86400, "w": 604800, "m": 30.4167 * 86400, "y": 365 * 86400}[m_.group(2)])))
        tz = ZoneInfo(r.tz) if r.tz else None
        tab = []
        for i in range(size):
            t = spec.start + timedelta(seconds=i * g)
            ok = True
            if any(a <= t < b for a, b in vac) or any(a <= t < b for a, b in away):
                ok = False
            elif hours is not None:
                loc = t.replace(tzinfo=timezone.utc).astimezone(tz) if tz else t
                ok = in_hours(hours, loc.weekday(), loc.hour * 60 + loc.minute)
            else:
                ok = t.weekday() < 5 and 9 <= t.hour < 17
            tab.append(ok)
        out[rid(spec, r)] = tab
    return out
