"""C13 - compiled fast paths and pure-Python fallbacks are equivalent.

Differential symbolic execution (ksym): the wrapper methods are run twice on the same symbolic
inputs in the same path, once with _USE_CYTHON False (real Python body) and once with True and the
accelerated functions bound to the transliteration of the current .pyx text; results must be equal
or both must raise.  C-int overflow obligations of the transliteration are divergence candidates.
Before anything else the transliteration is validated on a concrete grid against the extensions
freshly built from the same .pyx.
"""
from __future__ import annotations

import itertools
import time
from datetime import datetime, timedelta
from typing import Any

from ksym import crt
from ksym import engine as K
from vlib import runner as R

from . import c17, kern

PROPERTY = "C13"
META = {
    "level": "other",
    "explanation": "differential bounded symbolic execution (ksym, z3 5.1.0; z3 FP theory for the float32 return) of each "
                   "accelerated function against its pure-Python fallback, both called through the real wrapper methods; "
                   "the Cython side is a transliteration of the current .pyx text, validated against a fresh build on a "
                   "concrete grid in the same run; counterexamples replayed on the fresh extension",
    "functions": ["Scoreboard.idxToDate/dateToIdx/collectIntervals vs scoreboard_cy.pyx", "Project.dateToIdx/idxToDate vs time_utils_cy.pyx",
                  "WorkingHours.onShift/get_daily_hours vs working_hours_cy.pyx"],
    "bounds": "windows <= 2**31 s, |i| <= 2**19..2**20, t in [-2**31, 2**32] s, <= 2 intervals on each of 2 weekdays, "
              "scan tables <= 6 (quick) / 8 (thorough) slots, resolutions from the supported list",
    "assumptions": c17.META["assumptions"] + ["whole-project equality follows by composition from per-function equality (not re-decided symbolically)"],
    "stubs": c17.META["stubs"] + ["WorkingHours.project -> stub returning a symbolic (weekday, hour, minute)"],
}


def conditions(tier: str, seed: int) -> list[dict]:
    res = c17.QUICK_RES if tier == "quick" else c17.THOROUGH_RES
    cs = [{"name": "translit_grid", "bounds": "concrete grid: transliteration vs freshly built extension", "timeout": 300, "weight": 500}]
    for r in res:
        cs.append({"name": f"diff_sb[r={r}]", "bounds": f"L<=2**31, -2**19<=i<=2**31/r, t in [-2**31,2**32], r={r}", "timeout": 200})
        cs.append({"name": f"diff_project[g={r}]", "bounds": f"-2**19<=i<=2**31/g+1024, t in [-2**31,2**32], g={r}", "timeout": 200})
    cs.append({"name": "diff_wh[n=1]", "bounds": "1 interval on each of 2 symbolic weekdays, any minute of the week", "timeout": 600, "weight": 600})
    if tier == "thorough":
        cs.append({"name": "diff_wh[n=2]", "bounds": "<=2 intervals on each of 2 symbolic weekdays", "timeout": 3000, "weight": 3000})
    cs.append({"name": f"diff_scan[r=3600,n={5 if tier == 'quick' else 8}]", "bounds": "all predicate patterns", "timeout": 600 if tier == "quick" else 3000, "weight": 800})
    cs.append({"name": "projects[fixtures]", "bounds": "every tests/data/*.tjp and a family of generated projects scheduled with freshly built extensions vs "
               "with the extensions blocked (concrete end-to-end differential, not symbolic)", "timeout": 900, "weight": 400})
    cs.append({"name": "diff_daily_hours[n=1]", "bounds": "1 interval, hours 0..24, minutes 0..59 (bit-precise FP)", "timeout": 600, "weight": 700})
    if tier == "thorough":
        cs.append({"name": "diff_daily_hours[n=2]", "bounds": "2 intervals (bit-precise FP)", "timeout": 1800, "weight": 1800})
    return cs


def _parse(name: str) -> tuple[str, dict]:
    if "[" not in name:
        return name, {}
    kind, rest = name.split("[", 1)
    d = {}
    for p in rest.rstrip("]").split(","):
        k, v = p.split("=")
        d[k] = int(v)
    return kind, d


def _body(kind: str, d: dict, ctx: Any, py: kern.Impl, cy: kern.Impl) -> None:
    if kind == "diff_sb":
        kern.body_diff_sb(ctx, py, cy, d["r"])
    elif kind == "diff_project":
        kern.body_diff_project(ctx, py, cy, d["g"])
    elif kind == "diff_wh":
        kern.body_diff_wh(ctx, py, cy, d["n"])
    elif kind == "diff_scan":
        kern.body_diff_scan(ctx, py, cy, d["r"], d["n"])
    elif kind == "diff_daily_hours":
        kern.body_diff_daily_hours(ctx, py, cy, d["n"])
    else:
        raise ValueError(kind)


PROJ_RUNNER = r'''
import sys, json, glob, io, contextlib
mode, fresh = sys.argv[1], sys.argv[2]
if mode == "off":
    for n in ("scoreboard_cy", "time_utils_cy", "working_hours_cy"):
        sys.modules["scriptplan._cython." + n] = None   # import raises ImportError -> pure-Python fallbacks
else:
    sys.path.insert(0, "/verif")
    from vlib import cybuild
    cybuild.install_fresh(fresh)
from scriptplan.parser.tjp_parser import ProjectFileParser
import scriptplan.core.project as P, scriptplan.core.working_hours as W, scriptplan.scheduler.scoreboard as S
assert (P._USE_CYTHON, W._USE_CYTHON, S._USE_CYTHON) == ((mode == "on"),) * 3, (mode, P._USE_CYTHON, W._USE_CYTHON, S._USE_CYTHON)
out = {}
for path in json.loads(sys.argv[3]):
    try:
        with contextlib.redirect_stderr(io.StringIO()), contextlib.redirect_stdout(io.StringIO()):
            pr = ProjectFileParser().parse(open(path).read())
        rows = []
        for k in range(len(list(pr.scenarios))):
            for t in pr.tasks:
                rows.append([k, t.fullId, bool(t.get("scheduled", k)), str(t.get("start", k)), str(t.get("end", k))])
        out[path] = rows
    except Exception as e:
        out[path] = "EXC " + type(e).__name__ + ": " + str(e)[:200]
print(json.dumps(out))
'''


def projects_diff() -> dict:
    import glob
    import json
    import os
    import subprocess
    import sys
    import tempfile

    from sx.spec import render
    from . import c02, sxlib

    t0 = time.time()
    fd = c17.fresh_dir()
    tmp = tempfile.mkdtemp(prefix="verif_c13_")
    try:
        paths = sorted(glob.glob(os.path.join(kern.REPO, "tests", "data", "*.tjp")))
        gen = {"night": c02.cal_spec("night"), "night1": c02.cal_spec("night1"), "res900": c02.cal_spec("res900"), "tokyo": c02.cal_spec("tokyo"),
               "nymar": c02.cal_spec("ny-mar"), "s7": sxlib.S7("container"), "s6w": sxlib.S6("wres", limit="5h")}
        for nm, sp in gen.items():
            vals = {p: 5 * 3600 + 1234 for p in sp.params()}
            fp = os.path.join(tmp, nm + ".tjp")
            with open(fp, "w") as f:
                f.write(render(sp, vals))
            paths.append(fp)
        res = {}
        for mode in ("on", "off"):
            p = subprocess.run([sys.executable, "-c", PROJ_RUNNER, mode, fd, json.dumps(paths)], capture_output=True, text=True, timeout=800, cwd=tmp)
            if p.returncode != 0:
                return {"status": R.HARNESS_ERROR, "detail": f"runner {mode} failed: {p.stderr[-800:]}"}
            res[mode] = json.loads(p.stdout.strip().splitlines()[-1])
        bad = []
        n = 0
        for path in paths:
            n += 1
            if res["on"][path] != res["off"][path]:
                a, b = res["on"][path], res["off"][path]
                first = next((x for x in zip(a, b) if x[0] != x[1]), (a, b)) if isinstance(a, list) and isinstance(b, list) else (a, b)
                bad.append({"label": f"project {os.path.basename(path)} schedules differently with and without the extensions", "inputs": {"path": path, "first_difference": first}})
        out = {"paths": n, "nontrivial": n, "queries": 0, "solver_s": 0.0, "samples": [{"projects": [os.path.basename(x) for x in paths][:6]}]}
        if bad:
            return {**out, "status": R.REFUTED, "counterexamples": bad[:4], "detail": f"{len(bad)} projects differ"}
        return {**out, "status": R.DISCHARGED, "detail": f"{n} projects identical with fresh extensions and with fallbacks ({time.time() - t0:.0f} s)"}
    finally:
        import shutil
        shutil.rmtree(tmp, ignore_errors=True)


def run_condition(name: str, tier: str, seed: int) -> dict:
    if name == "projects[fixtures]":
        return projects_diff()
    kind, d = _parse(name)
    if kind == "translit_grid":
        return translit_grid()
    py, cy = kern.Impl("py", True), kern.Impl("cy", True)
    budget = {"diff_scan": 550 if tier == "quick" else 2900, "diff_wh": 550 if d.get("n") == 1 else 2900,
              "diff_daily_hours": 550 if d.get("n") == 1 else 1700}.get(kind, 150)
    return c17.run_symbolic(lambda ctx, _impl: _body(kind, d, ctx, py, cy), "py", budget_s=budget,
                            solver_timeout_ms=400000 if kind == "diff_daily_hours" else 20000)


def replay(record: dict) -> dict:
    if record["condition"] == "projects[fixtures]":
        return {"reproduced": True, "detail": "end-to-end differential on real processes: " + str(record["inputs"])[:400]}
    kind, d = _parse(record["condition"])
    if kind == "translit_grid":
        return {"reproduced": False, "detail": "grid mismatches are harness errors, not violations"}
    if record["condition"] == "projects[fixtures]":
        return {"reproduced": True, "detail": "end-to-end differential on real processes: " + str(record["inputs"])[:400]}
    inputs = dict(record.get("inputs", {}))
    info = record.get("info")
    if isinstance(info, dict) and "pattern" in info:
        inputs["pattern"] = info["pattern"]
    py, cy = kern.Impl("py", False), kern.Impl("cy", False, c17.fresh_dir())
    ctx = kern.ConCtx(inputs)
    try:
        _body(kind, d, ctx, py, cy)
    except kern.EndOfInputs:
        pass
    except kern.Skip as s:
        return {"reproduced": False, "detail": f"inputs outside bounds: {s}"}
    except Exception as ex:
        return {"reproduced": True, "detail": f"real code raised {type(ex).__name__}: {ex}"}
    return {"reproduced": bool(ctx.failures), "detail": f"diverges on the fresh build: {ctx.failures}" if ctx.failures else f"all {ctx.checked} comparisons equal natively"}


known_match = c17.known_match


# ---- validation of the transliteration on a concrete grid ----------------------------------

def translit_grid() -> dict:
    """push a concrete grid through (a) the transliteration with C semantics on Python numbers and
    (b) the extension freshly built from the same .pyx; any disagreement is a HARNESS error"""
    from vlib import cybuild

    t0 = time.time()
    fd = c17.fresh_dir()
    n = 0
    bad: list[str] = []
    flagged = 0
    base = datetime(2025, 1, 6, 9, 0)

    def cmp(label: str, f_tr: Any, f_so: Any, *args: Any) -> None:
        nonlocal n, flagged
        n += 1
        rt.flags.clear()
        try:
            a = ("ok", f_tr(*args))
        except Exception as e:  # noqa: BLE001
            a = (type(e).__name__, None)
        ub = any(f.startswith("cast-out-of-range") for f in rt.flags)
        try:
            b = ("ok", f_so(*args))
        except Exception as e:  # noqa: BLE001
            b = (type(e).__name__, None)
        if ub:
            flagged += 1  # undefined behaviour in C (out-of-range double->int): not modelled, not compared
            return
        if a != b:
            bad.append(f"{label}{args!r}: translit={a} so={b}")

    rt = crt.ConcreteRT()
    # scoreboard_cy
    tr = kern.con_translit_module("scoreboard_cy", rt)
    so = cybuild.load(fd, "scoreboard_cy")
    for r in (60, 300, 900, 3600):
        for secs in (-7200, -1, 0, 1, r - 1, r, r + 1, 86399, 86400, 10**6 + 7, 2**31 - 1, 2**31, 2**31 + r, 3 * 10**9):
            for force in (False, True):
                cmp("date_to_idx_fast", tr["date_to_idx_fast"], so.date_to_idx_fast, base + timedelta(seconds=secs), base, r, 1000, force)
        for idx in (-5, -1, 0, 1, 999, 1000, 1001, 596523, 596524, 600000, 2**31 // r, 2**31 // r + 1):
            for force in (False, True):
                cmp("idx_to_date_fast", tr["idx_to_date_fast"], so.idx_to_date_fast, idx, base, r, 1000, force, base + timedelta(days=40))
    from scriptplan.utils.time import TimeInterval

    class TI(TimeInterval):
        def __eq__(self, o: Any) -> bool:
            return (self.start, self.end) == (o.start, o.end)

        __hash__ = None  # type: ignore[assignment]

    for pat in itertools.product([False, True], repeat=5):
        sb = list(pat) + [False]
        for (s_idx, e_idx, md) in ((0, 5, 1), (1, 4, 2), (2, 3, 1), (0, 5, 3)):
            st, en = max(0, s_idx - md), min(5, e_idx + md)
            cmp("collect_intervals_fast", tr["collect_intervals_fast"], so.collect_intervals_fast, sb, st, en, s_idx, e_idx, md, 6, base, 3600,
                (lambda v: v is True), TI)
    # time_utils_cy
    tr = kern.con_translit_module("time_utils_cy", rt)
    so = cybuild.load(fd, "time_utils_cy")
    for g in (60, 300, 900, 3600):
        for secs in (-86400, -g - 1, -g, -1, 0, 1, g - 1, g, 12345, 2**31 - 1, 2**31, 2**31 + g):
            cmp("project_date_to_idx", tr["project_date_to_idx"], so.project_date_to_idx, base + timedelta(seconds=secs), base, g)
        for idx in (-3, 0, 1, 1000, 596523, 596524, 600000, 2**31 // g, 2**31 // g + 1):
            cmp("project_idx_to_date", tr["project_idx_to_date"], so.project_idx_to_date, idx, base, g)
        cmp("scoreboard_size", tr["scoreboard_size"], so.scoreboard_size, base, base + timedelta(days=30, seconds=17), g)
    # working_hours_cy
    tr = kern.con_translit_module("working_hours_cy", rt)
    so = cybuild.load(fd, "working_hours_cy")
    cals = [
        {0: [((9, 0), (17, 0))], 2: [((8, 15), (11, 45)), ((13, 15), (16, 30))]},
        {6: [((22, 0), (6, 0))]},
        {0: [((22, 0), (6, 0))], 1: []},
        {4: [((0, 0), (24, 0))], 5: [((23, 30), (0, 30))]},
        {},
    ]
    for cal in cals:
        for wd in range(7):
            for mins in (0, 1, 29, 359, 360, 495, 539, 540, 1019, 1020, 1320, 1410, 1439):
                for flag in (True, False):
                    cmp("check_working_hours_fast", tr["check_working_hours_fast"], so.check_working_hours_fast, mins, wd, cal, flag)
    for ivs in ([((9, 0), (17, 0))], [((8, 15), (11, 45)), ((13, 15), (16, 30))], [((22, 0), (6, 0))], [((0, 0), (0, 1))], [((9, 0), (17, 20))], []):
        cmp("calculate_daily_hours", tr["calculate_daily_hours"], so.calculate_daily_hours, ivs)
    res = {"paths": n, "nontrivial": n, "queries": 0, "solver_s": 0.0,
           "samples": [{"grid_points": n, "skipped_undefined_casts": flagged}]}
    if bad:
        return {**res, "status": R.HARNESS_ERROR, "detail": "transliteration disagrees with the fresh build: " + "; ".join(bad[:5])}
    return {**res, "status": R.DISCHARGED, "detail": f"{n} grid points agree ({flagged} with undefined C casts skipped), {time.time() - t0:.1f}s"}
