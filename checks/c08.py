"""C08 - no eligible working time is left idle (Engine A)."""
from sx import oracle as O

from . import sxlib

PROPERTY = "C08"
_chk = sxlib.SxCheck("C08", [O.no_idle_forward, O.no_idle_backward], sxlib.sched_cells)
META = dict(sxlib.SX_META, functions=["Project.scheduleScenario/finishScenario", "TaskScenario.schedule and everything below it", "ResourceScenario.available/book"],
            bounds="template family S1-S5 (see checks/sxlib.py): <=3-4 leaf tasks, efforts 60 s .. 2.5 slots as symbolic seconds, efficiencies by cell, "
                   "resolutions 1 h / 15 min, gaps {29min,1h,1d}, team / alternative allocations, nested containers; horizon 2 weeks")
conditions, run_condition, replay, known_match = _chk.conditions, _chk.run_condition, _chk.replay, sxlib.known_match
