"""C02 - work is booked only inside the resource's working time.

K1 (Engine B, ksym): the real WorkingHours.onShift (Python body and transliterated Cython body) against the declarative
calendar for symbolic weekday/minute/intervals.  Whole-run cells (Engine A): symbolic efforts on projects with own hours,
shift references, default calendar, vacations, leaves, time zones incl. DST changes and date-line zones, cross-midnight
shifts; every booked slot must be working time in a calendar recomputed from the spec (sx/calendar.py), and the real
onShift table of every leaf resource must not exceed that calendar on any slot of the horizon."""
from datetime import datetime

from sx import calendar as CAL
from sx import oracle as O
from sx.run import Cell
from sx.spec import Dep, P, Res, Spec, Task

from . import c17, kern, sxlib
from .sxlib import H

PROPERTY = "C02"

LUNCH = ["mon - fri 9:00 - 12:00, 13:00 - 18:00"]


def cal_spec(kind: str) -> Spec:
    start, length, res, vac, shifts = datetime(2025, 1, 6), "3w", 3600, [], {}
    r = Res("r")
    if kind == "own":
        r.hours = LUNCH
    elif kind == "shift":
        r.shift, shifts = "s1", {"s1": ["mon - thu 8:00 - 12:00, 13:00 - 17:00", "fri 8:00 - 13:00"]}
    elif kind == "vacation":
        r.hours, vac = LUNCH, ["2025-01-08", "2025-01-13 - 2025-01-15"]
    elif kind == "leave1":
        r.hours, r.leaves = LUNCH, ["annual 2025-01-07"]
    elif kind == "leaveN":
        r.leaves = ["annual 2025-01-07 - 2025-01-10"]
    elif kind == "resvac":
        r.vacation = ["2025-01-07"]
    elif kind == "resvacN":
        r.hours, r.vacation = LUNCH, ["2025-01-08 - 2025-01-10"]
    elif kind == "tokyo":
        r.hours, r.tz = ["mon - fri 9:00 - 17:00"], "Asia/Tokyo"
    elif kind == "tokyo-vacation":
        # the Tokyo working day begins at 00:00 UTC, i.e. exactly at the first instant of a date-only global vacation
        r.hours, r.tz, vac = ["mon - fri 9:00 - 17:00"], "Asia/Tokyo", ["2025-01-07", "2025-01-09 - 2025-01-10"]
    elif kind == "night-vacation":
        # a night shift is running when the global vacation begins at midnight
        r.hours, vac = ["mon - fri 22:00 - 6:00"], ["2025-01-08"]
    elif kind == "ny-mar":
        r.hours, r.tz, start = ["mon - fri 9:00 - 17:00"], "America/New_York", datetime(2025, 3, 3)
    elif kind == "ny-nov":
        r.hours, r.tz, start = ["mon - fri 9:00 - 17:00"], "America/New_York", datetime(2025, 10, 27)
    elif kind == "la-mar-night":
        r.hours, r.tz, start, length = ["mon - sun 22:00 - 6:00"], "America/Los_Angeles", datetime(2025, 3, 6), "1w"
    elif kind == "la-nov-evening":
        r.hours, r.tz, start, length = ["mon - sun 18:00 - 23:00"], "America/Los_Angeles", datetime(2025, 10, 30), "1w"
    elif kind == "berlin-mar-early":
        r.hours, r.tz, start, length = ["mon - sun 0:00 - 4:00", "mon - sun 21:00 - 24:00"], "Europe/Berlin", datetime(2025, 3, 27), "1w"
    elif kind == "kiritimati":
        r.hours, r.tz = ["mon - fri 8:00 - 16:00"], "Pacific/Kiritimati"
    elif kind == "pagopago":
        r.hours, r.tz = ["mon - fri 8:00 - 16:00"], "Pacific/Pago_Pago"
    elif kind == "night":
        r.hours = ["mon - fri 22:00 - 6:00"]
    elif kind == "night1":
        r.hours = ["mon 9:00 - 17:00", "sun 22:00 - 6:00", "wed 20:00 - 2:00", "thu 9:00 - 12:00"]
    elif kind == "res900":
        r.hours, res = ["mon - fri 8:15 - 11:45, 13:15 - 16:30"], 900
    elif kind == "default":
        vac = ["2025-01-09"]
    tasks = [Task("a", effort=P("e0"), alloc=["r"]), Task("b", effort=P("e1"), alloc=["r"], deps=[Dep("a")])]
    if kind.startswith("booking-"):
        # a blocking booking from Tuesday 09:00 for one unit of the duration (the first task ends around Monday evening)
        r.bookings = [("2025-01-07-09:00", "1" + kind.split("-")[1])]
        length = "4w" if kind != "booking-m" else "9w"
    if kind == "holiday-bound":
        # a global holiday on Tuesday; the successor runs on ANOTHER resource and its dependency bound (end of a + 990 min)
        # falls into the first working slot of the holiday
        sp = Spec([Task("a", effort=P("e0"), alloc=["r"]), Task("b", effort=P("e1"), alloc=["q"], deps=[Dep("a", gap="990min")])], [r, Res("q")],
                  start=start, length=length, resolution=res, global_leaves=["2025-01-07"])
        return sp
    if kind == "holiday":
        return Spec(tasks, [r], start=start, length=length, resolution=res, global_leaves=["2025-01-07", "2025-01-09 - 2025-01-11"])
    return Spec(tasks, [r], start=start, length=length, resolution=res, vacations=vac, shifts=shifts)


def on_calendar(spec, vals, obs, info):
    """(1) every booked slot is working time of the recomputed calendar; (2) the real onShift table stays inside it"""
    from sx import world

    with world.notrace():  # concrete data only (zoneinfo is C code)
        ref = CAL.ref_calendar(spec, info["size"], info["g"])
    fails = O.booked_on_shift(spec, vals, obs, info, ref)
    with world.notrace():  # both tables are concrete
        if spec.global_leaves:
            # project-level 'leaves' are kept as scoreboard markers, not in onShift(): clause (2) compares the onShift table with the
            # calendar without them (clause (1) judges the bookings against the full calendar)
            import copy

            sp2 = copy.copy(spec)
            sp2.global_leaves = []
            ref = CAL.ref_calendar(sp2, info["size"], info["g"])
        for rid, tab in info.get("onshift", {}).items():
            for i, v in enumerate(tab):
                if v and not ref[rid][i]:
                    fails.append(f"C02 {rid}: onShift says slot {i} ({spec.start} + {i}*{info['g']} s) is working time, the declared calendar says it is not")
                    break
    return fails


KINDS = ["own", "shift", "default", "vacation", "leave1", "leaveN", "resvac", "resvacN", "tokyo", "ny-mar", "ny-nov", "la-mar-night", "la-nov-evening", "berlin-mar-early",
         "kiritimati", "pagopago", "night", "night1", "res900", "booking-d", "booking-w", "booking-m", "holiday", "holiday-bound",
         "tokyo-vacation", "night-vacation"]


def cells(tier: str) -> dict:
    out = {}
    for kind in KINDS:
        # narrow: the first task ends around the end of the first working day (7..9 h), the second is short - the pair straddles the
        # first calendar feature (night, leave, vacation, DST change) with a small path tree
        def f(kind=kind):
            s = cal_spec(kind)
            if s.resolution == 3600:
                return Cell(s, {"e0": (7 * H, 9 * H), "e1": (60, 2 * H)}, [on_calendar])
            return Cell(s, {"e0": (6 * H, 7 * H), "e1": (60, H)}, [on_calendar])
        out[f"cal[{kind}]"] = f
        if tier != "quick":
            def g(kind=kind):
                s = cal_spec(kind)
                hi = (12 * H if s.length == "3w" else 8 * H) if s.resolution == 3600 else 3 * H
                return Cell(s, {"e0": (60, hi), "e1": (60, hi)}, [on_calendar])
            out[f"cal[{kind},wide]"] = g
    return out


_chk = sxlib.SxCheck("C02", [on_calendar], cells, quick_budget=120)
META = dict(sxlib.SX_META, functions=["WorkingHours.onShift (Python body; Cython body via transliteration)", "ResourceScenario.onShift", "Project._isDefaultWorkingTime / initScoreboards",
                                      "ModelBuilder (leaves, vacations, shifts, workinghours)", "TaskScenario.bookResource"],
            bounds="K1: any weekday/minute, <=1 (quick) / 2 (thorough) intervals on each of 2 symbolic weekdays incl. cross-midnight and 24:00; whole-run: 16 calendar kinds "
                   "(own hours, shift, default, global vacation day/range, leave day/range, resource vacation, Asia/Tokyo, America/New_York across both 2025 DST changes, "
                   "Pacific/Kiritimati, Pacific/Pago_Pago, night shifts, 15-min resolution), 2 chained tasks with efforts 60 s .. 12 h symbolic; every slot of a 3-week horizon "
                   "for the onShift table (enumerated, not symbolic). The C implementation of zoneinfo is trusted (used by the oracle as well).")


def conditions(tier, seed):
    cs = _chk.conditions(tier, seed)
    for impl in ("py", "cy"):
        cs.append({"name": f"kernel[{impl},n=1]", "bounds": "1 interval on each of 2 symbolic weekdays, any minute of the week", "timeout": 700, "weight": 700})
        if tier == "thorough":
            cs.append({"name": f"kernel[{impl},n=2]", "bounds": "<=2 intervals on each of 2 symbolic weekdays", "timeout": 3400, "weight": 3400})
    return cs


def run_condition(name, tier, seed):
    if name.startswith("kernel["):
        impl = name[7:9]
        n = int(name.split("n=")[1].rstrip("]"))
        return c17.run_symbolic(lambda ctx, im: kern.body_wh_spec(ctx, im, n), impl, budget_s=600 if n == 1 else 3300)
    return _chk.run_condition(name, tier, seed)


def replay(record):
    name = record["condition"]
    if name.startswith("kernel["):
        impl = name[7:9]
        n = int(name.split("n=")[1].rstrip("]"))
        return c17.replay_body(lambda ctx, im: kern.body_wh_spec(ctx, im, n), record, impl)
    return _chk.replay(record)


known_match = sxlib.known_match
