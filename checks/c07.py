"""C07 - ASAP schedules equal the priority-ordered earliest-fit schedule (Engine A, differential against
sx/reference.py evaluated on the same symbolic values inside the same traced call)."""
from datetime import datetime

from sx import oracle as O
from sx.spec import Dep, P, Res, Spec, Task

from . import sxlib
from .sxlib import DAY0, H, S6

PROPERTY = "C07"


def R1(n: int, eff: float = 1.0, res: int = 3600) -> Spec:
    tasks = [Task(f"t{i}", effort=P(f"e{i}"), alloc=["r"], prio=P(f"p{i}")) for i in range(n)]
    return Spec(tasks, [Res("r", eff=eff)], resolution=res, length="2w", effort_unit=int(res * eff))


def R2(gap: str = None, onstart: bool = False) -> Spec:
    return Spec([Task("a", effort=P("e0"), alloc=["r"], prio=P("p0")),
                 Task("b", effort=P("e1"), alloc=["r"], deps=[Dep("a", gap=gap, onstart=onstart)], prio=P("p1")),
                 Task("x", effort=P("e2"), alloc=["r"], prio=P("p2"))], [Res("r")], length="2w", effort_unit=H)


def R3() -> Spec:
    return Spec([Task("team", effort=P("e0"), alloc=["r1", "r2"], prio=P("p0")),
                 Task("solo1", effort=P("e1"), alloc=["r1"], prio=P("p1")),
                 Task("solo2", effort=P("e2"), alloc=["r2"], prio=P("p2"))], [Res("r1"), Res("r2")], length="2w", effort_unit=H)


def R5() -> Spec:
    return Spec([
        Task("pre", effort=P("e0"), alloc=["r"], prio=P("p0")),
        Task("c", deps=[Dep("pre")]),
        Task("a", parent="c", effort=P("e1"), alloc=["r"]),
        Task("b", parent="c"),
        Task("d", parent="c.b", effort=P("e2"), alloc=["q"], deps=[Dep("c.a")]),
        Task("post", effort=P("e3"), alloc=["q"], deps=[Dep("c")], prio=P("p1")),
        Task("free", effort=P("e4"), alloc=["q"], prio=P("p2")),
    ], [Res("r"), Res("q")], length="2w", effort_unit=H)


def R8(kind: str) -> Spec:
    """calendars: lunch break, leave range, global vacation, pinned start (slot aligned, symbolic)"""
    r = Res("r", hours=["mon - fri 9:00 - 12:00, 13:00 - 18:00"]) if kind != "default" else Res("r")
    if kind == "leave":
        r.leaves = ["annual 2025-01-07 - 2025-01-09"]
    sp = Spec([Task("a", effort=P("e0"), alloc=["r"], start=P("s0"), prio=P("p0")),
               Task("b", effort=P("e1"), alloc=["r"], prio=P("p1"))], [r], length="2w", effort_unit=H, time_unit=H)
    if kind == "vacation":
        sp.vacations = ["2025-01-07", "2025-01-09 - 2025-01-11"]
    if kind == "pre-leave":
        # calendar entries before the project start (and one spanning it); the pinned task sits in the last days of the window
        r.leaves = ["annual 2025-01-01 - 2025-01-05", "annual 2025-01-05 - 2025-01-06-12:00"]
    return sp


def cells(tier: str) -> dict:
    out = {}

    def add(name, spec_f, emax, extra=None, pre=None):
        def f():
            s = spec_f()
            rg = {}
            for n in s.params():
                rg[n] = (1, emax) if n.startswith("e") else ((400, 600) if n.startswith("p") else (0, 60))
            rg.update(extra or {})
            return s, rg, pre
        out[name] = f

    # narrow variants (efforts 1..2 slots, priorities 499..501, pins within the first 20 slots): exhausted in the quick budget
    def narrow(name, spec_f, extra=None):
        def f():
            sp = spec_f()
            rg = {}
            for n in sp.params():
                rg[n] = (1, 2) if n.startswith("e") else ((499, 501) if n.startswith("p") else (0, 20))
            rg.update(extra or {})
            return sp, rg, None
        out[name] = f
    narrow("R1x2[narrow]", lambda: R1(2))
    narrow("R1x3[narrow]", lambda: R1(3))
    narrow("R2[gap=1h,narrow]", lambda: R2("1h"))
    narrow("R2[gap=1d,narrow]", lambda: R2("1d"))
    narrow("R2[onstart,1h,narrow]", lambda: R2("1h", True))
    narrow("R3team[narrow]", R3)
    narrow("R8[leave,narrow]", lambda: R8("leave"))
    narrow("R8[vacation,narrow]", lambda: R8("vacation"))
    narrow("R8[pre-leave,narrow]", lambda: R8("pre-leave"), {"s0": (262, 268)})
    # priority 0 is a legal priority (the lowest)
    def prio0():
        return R1(2), {"e0": (1, 2), "e1": (1, 2), "p0": (0, 2), "p1": (0, 2)}, None
    out["R1x2[prio 0..2]"] = prio0

    # a high-priority task depending on a container that consists of dated milestones only (scheduled in the pre-pass)
    def ms_container():
        sp = Spec([Task("gate"), Task("m1", parent="gate", milestone=True, start=DAY0), Task("m2", parent="gate", milestone=True, start=DAY0 + H),
                   Task("low", effort=P("e0"), alloc=["r"], prio=P("p0")), Task("high", effort=P("e1"), alloc=["r"], prio=P("p1"), deps=[Dep("gate")])],
                  [Res("r")], length="2w", effort_unit=H)
        return sp, {"e0": (1, 3), "e1": (1, 3), "p0": (100, 101), "p1": (900, 901)}, None
    out["R5[milestone-container]"] = ms_container
    add("R1x2", lambda: R1(2), 6)
    add("R1x3", lambda: R1(3), 3 if tier == "quick" else 4)
    add("R1x2[eff=0.5]", lambda: R1(2, eff=0.5), 4)
    add("R1x2[eff=2.0]", lambda: R1(2, eff=2.0), 6)
    add("R1x2[res=900]", lambda: R1(2, res=900), 6)
    for gap in (None, "1h", "4h", "1d"):
        add(f"R2[gap={gap}]", lambda gap=gap: R2(gap), 3)
    add("R2[onstart,1h]", lambda: R2("1h", True), 3)
    add("R3team", R3, 3)
    add("R5containers", R5, 2 if tier == "quick" else 3)
    for kind in ("dres", "wres", "dgroup", "dparent"):
        def mk(kind=kind):
            s = S6(kind, limit="2h" if kind[0] == "d" else "5h")
            s.effort_unit = H
            for t in s.tasks:
                if t.effort is not None:
                    t.prio = P("p" + t.id[1:])
            return s
        add(f"R6[{kind}]", mk, 6)
    def noon(kind):
        s = S6(kind, start=datetime(2025, 6, 2, 13, 0), limit="4h" if kind[0] == "d" else "9h")
        s.effort_unit = H
        for t in s.tasks:
            if t.effort is not None:
                t.prio = P("p" + t.id[1:])
        return s
    add("R6[dres,start13:00]", lambda: noon("dres"), 9)
    add("R6[wres,start13:00]", lambda: noon("wres"), 9)
    for kind in ("default", "lunch", "leave", "vacation"):
        add(f"R8[{kind}]", lambda kind=kind: R8(kind), 4, {"s0": (0, 120)})
    if tier == "quick":
        keep = [n for n in out if "narrow" in n] + ["R1x2[prio 0..2]", "R5[milestone-container]", "R1x2", "R1x2[eff=0.5]", "R1x2[res=900]", "R2[gap=None]", "R5containers", "R6[dres]", "R6[wres]",
                                                      "R6[dgroup]", "R6[dres,start13:00]", "R8[default]", "R8[lunch]"]
        out = {n: out[n] for n in keep}
    return out


_chk = sxlib.SxCheck("C07", [O.matches_reference], cells)
META = dict(sxlib.SX_META, functions=["Project.scheduleScenario (sort_key, ready loop)", "TaskScenario.schedule/scheduleSlot/bookResources", "ResourceScenario.available/book", "Limit.ok/inc"],
            bounds="core dialect: efforts = symbolic whole numbers of slots (1..6) at the resource's efficiency, priorities symbolic in 400..600, pinned start = symbolic "
                   "slot offset 0..120, gaps {none,1h,4h,1d}, on-end/on-start, team allocation, nested containers with dependencies on/into them, "
                   "dailymax/weeklymax on resource/group/parent task, lunch-break shift, leave range, global vacations, resolutions 1 h / 15 min; <=5 leaf tasks; "
                   "reference = sx/reference.py (independent list scheduler)")
conditions, run_condition, replay, known_match = _chk.conditions, _chk.run_condition, _chk.replay, sxlib.known_match
