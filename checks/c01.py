"""C01 - a resource is never double-booked (Engine A)."""
from sx import oracle as O

from . import sxlib

PROPERTY = "C01"
_chk = sxlib.SxCheck("C01", [O.no_double_booking], sxlib.sched_cells)
META = dict(sxlib.SX_META, functions=["Project.scheduleScenario", "TaskScenario.schedule/scheduleSlot/bookResources/bookResource/_calculatePreciseEndTimeAndRelease",
                                      "ResourceScenario.available/book/getAvailableSecondsInSlot"],
            bounds="<=3 tasks sharing slots of one resource (chains and independent), efforts 60 s .. 2.5 slots as symbolic seconds, efficiencies "
                   "{0.25..4} by cell, resolutions 1 h / 15 min, team and alternative allocations, containers; horizon 2 weeks")
conditions, run_condition, replay, known_match = _chk.conditions, _chk.run_condition, _chk.replay, sxlib.known_match
