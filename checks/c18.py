"""C18 - reports say what was scheduled (partial).

(b) Engine A: projects with task reports are scheduled under tracing with symbolic efforts; the scheduled values of the path
    are then realised, the real Report.generate_intermediate_format()/to_json()/to_csv() run, and every row/cell is compared
    with an independent rendering of the model values (row per task in declaration order, leaf filter, effective time format,
    scenario of the report, cost = rate x booked hours, empty dates for unscheduled tasks, JSON == CSV cells, generating twice
    leaves schedule and ledger unchanged).
(a) Engine B (ksym decision tree): the real ReportTable.to_json / to_csv on tables of symbolic shape and header-title pattern.
OUTSIDE: rich text, resource reports, files on disk (C19), byte-level layout."""
import contextlib
import io
import time
from datetime import datetime, timedelta
from typing import Any

from ksym import engine as K
from sx import world
from sx.run import Cell
from sx.spec import Dep, P, Res, Spec, Task, inject, render
from vlib import runner as R

from . import sxlib
from .sxlib import H

PROPERTY = "C18"

PROJ_TF = '  timeformat "%d.%m.%Y %H:%M"'
SC2 = '  scenario plan "Plan" {\n    scenario s2 "S2"\n  }'


def rep_spec(kind: str) -> tuple[Spec, list[dict]]:
    """(spec, report descriptions for the oracle)"""
    r = Res("r", rate=100.0)
    q = Res("q", rate=80.0, eff=2.0)
    tasks = [Task("c"), Task("a", parent="c", effort=P("e0"), alloc=["r"]), Task("b", parent="c", effort=P("e1"), alloc=["q"], deps=[Dep("c.a")], prio=700),
             Task("m", deps=[Dep("c")]), Task("x", effort=P("e2"), alloc=["r"])]
    reps: list[dict] = []
    sp = Spec(tasks, [r, q], length="4w")
    if kind == "basic":
        reps = [dict(id="rep1", cols=["id", "name", "start", "end", "effort", "priority", "cost"], tf=None, leaf=False, sc="plan", fmts="json, csv")]
    elif kind == "leaf-tf":
        reps = [dict(id="rep1", cols=["id", "start", "end"], tf="%Y-%m-%d-%H:%M", leaf=True, sc="plan", fmts="json, csv"),
                dict(id="rep2", cols=["name", "end", "cost"], tf=None, leaf=False, sc="plan", fmts="csv, json")]
        sp.extra_header = '  timeformat "%d.%m.%Y %H:%M"'
    elif kind == "scenario":
        sp.scenarios, sp.scen_names, sp.scen_parent = SC2, ["plan", "s2"], {"plan": None, "s2": "plan"}
        sp.task("c.a").scen_effort["s2"] = P("e0s2")
        reps = [dict(id="rep1", cols=["id", "start", "end", "effort", "cost"], tf="%Y-%m-%d %H:%M", leaf=False, sc="s2", fmts="json, csv"),
                dict(id="rep2", cols=["id", "start", "end", "effort", "cost"], tf="%Y-%m-%d %H:%M", leaf=True, sc="plan", fmts="json, csv")]
    elif kind == "unscheduled":
        away = Res("away", leaves=["annual 2025-01-01 - 2025-03-01"])
        sp.resources.append(away)
        sp.tasks.append(Task("stuck", effort=P("e3"), alloc=["away"]))
        sp.tasks.append(Task("nobody", effort=7200))   # effort, but nothing allocated
        reps = [dict(id="rep1", cols=["id", "start", "end", "effort"], tf=None, leaf=True, sc="plan", fmts="json, csv")]
    elif kind == "explicit-default-tf":
        # the report chooses the format that happens to be the built-in default; the project has another one
        reps = [dict(id="rep1", cols=["id", "start", "end"], tf="%Y-%m-%d", leaf=True, sc="plan", fmts="json, csv"),
                dict(id="rep2", cols=["id", "start", "end"], tf=None, leaf=True, sc="plan", fmts="csv, json")]
        sp.extra_header = PROJ_TF
    for rp in reps:
        lines = [f'taskreport {rp["id"]} "{rp["id"]}" {{', f'  formats {rp["fmts"]}', "  columns " + ", ".join(rp["cols"])]
        if rp["tf"]:
            lines.append(f'  timeformat "{rp["tf"]}"')
        if rp["leaf"]:
            lines.append("  leaftasksonly true")
        if rp["sc"] != "plan":
            lines.append(f'  scenarios {rp["sc"]}')
        lines.append("}")
        sp.reports.append("\n".join(lines))
    return sp, reps


def expected_rows(spec: Spec, rp: dict, model: dict, proj_tf: Any) -> list[list[str]]:
    """independent rendering: one row per task in declaration order (leaves only when requested)"""
    tf = rp["tf"] or proj_tf or "%Y-%m-%d"
    rows = []
    for t in spec.tasks:
        tid = spec.full_id(t)
        if rp["leaf"] and not spec.is_leaf(t):
            continue
        m = model[tid]
        row = []
        for c in rp["cols"]:
            if c == "id":
                row.append(tid)
            elif c == "name":
                row.append(t.id)
            elif c in ("start", "end"):
                v = m[c]
                row.append("" if v is None else (spec.start + timedelta(seconds=v)).strftime(tf))
            elif c == "effort":
                e = m["effort_h"]
                row.append("0" if not e else f"{e:.2f}")
            elif c == "priority":
                row.append(str(m["prio"]))
            elif c == "cost":
                row.append(f"{m['cost']:.2f}" if m["cost"] and m["cost"] > 0 else "")
        rows.append(row)
    return rows


TITLES = {"id": "Id", "name": "Name", "start": "Start", "end": "End", "effort": "Effort", "priority": "Priority", "cost": "Cost"}


class ReportCell(Cell):
    def __init__(self, kind: str):
        self.kind = kind
        spec, self.reps = rep_spec(kind)
        rg = {p: (60, 4 * H) for p in spec.params()}
        super().__init__(spec, rg, [])

    # model values of one scenario, from concrete observations
    def _model(self, project: Any, sc: int, obs: dict) -> dict:
        spec = self.spec
        model = {}
        rates = {o_id: None for o_id in obs["res"]}
        for t in spec.tasks:
            tid = spec.full_id(t)
            o = obs["tasks"][tid]
            booked = 0.0
            cost = 0.0
            for r in spec.resources:
                from sx.oracle import _leaf_path

                rp = _leaf_path(spec, r.id)
                secs = sum(s for lst in obs["res"][rp]["ledger"].values() for (tk, s) in lst if tk == tid)
                cost += (secs / 3600.0) * (r.rate or 0.0)
            ptask = project.tasks[tid]
            eff = ptask.get("effort", sc)
            prio = ptask.get("priority", sc)
            model[tid] = {"start": o["start"] if o["scheduled"] or o["start"] is not None else None, "end": o["end"], "effort_h": eff, "prio": prio, "cost": cost,
                          "scheduled": o["scheduled"]}
            if not o["scheduled"] and spec.is_leaf(t) and t.effort is not None:
                model[tid]["start"] = None if t.start is None else model[tid]["start"]
                model[tid]["end"] = None
        return model

    def _judge_reports(self, project: Any, obs_by_sc: list[dict]) -> list[str]:
        fails: list[str] = []
        proj_tf = project.attributes.get("timeformat")
        snapshot = [{tid: (o["start"], o["end"], o["scheduled"]) for tid, o in ob["tasks"].items()} for ob in obs_by_sc]
        for rp in self.reps:
            rep = project.reports[rp["id"]]
            sc = self.spec.scen_names.index(rp["sc"])
            model = self._model(project, sc, obs_by_sc[sc])
            exp = expected_rows(self.spec, rp, model, proj_tf)
            for rnd in (1, 2):  # generating any number of times
                with contextlib.redirect_stderr(io.StringIO()):
                    rep.generate_intermediate_format()
                    js, cs = rep.to_json(), rep.to_csv()
                if js is None or cs is None:
                    fails.append(f"C18 {rp['id']}: no table generated")
                    break
                hdr = [TITLES[c] for c in rp["cols"]]
                if cs[0] != hdr:
                    fails.append(f"C18 {rp['id']}: CSV header {cs[0]} != {hdr}")
                body = cs[1:]
                if body != exp:
                    bad = next((i for i in range(max(len(body), len(exp))) if i >= len(body) or i >= len(exp) or body[i] != exp[i]), None)
                    fails.append(f"C18 {rp['id']} (scenario {rp['sc']}, round {rnd}): row {bad}: report {body[bad] if bad is not None and bad < len(body) else None} "
                                 f"!= scheduled values {exp[bad] if bad is not None and bad < len(exp) else None}")
                jrows = [[rec.get(c, None) for c in js["columns"]] for rec in js["data"]]
                if js["columns"] != [h.lower() for h in hdr] or jrows != body:
                    fails.append(f"C18 {rp['id']}: JSON cells differ from CSV cells")
        # generating reports never alters the schedule
        for k, ob in enumerate(obs_by_sc):
            base = project.attributes["start"]
            for t in project.tasks:
                s, e = t.get("start", k), t.get("end", k)
                cur = (None if s is None else (s - base).total_seconds(), None if e is None else (e - base).total_seconds(), bool(t.get("scheduled", k)))
                if cur != snapshot[k][t.fullId]:
                    fails.append(f"C18 generating reports changed the schedule of {t.fullId} in scenario {k}: {snapshot[k][t.fullId]} -> {cur}")
        return fails

    def body(self, *a: int) -> bool:
        from crosshair.core import deep_realize

        spec = self.spec
        vals = dict(zip(self.names, a))
        G = a[len(self.names)]
        n_sc = len(spec.scen_names)
        with world.notrace():
            project = world.parse(self.text)
            info = world.prepare(project, scenario=0)
        world.set_symbolic_granularity(project, G, spec.resolution)
        inject(spec, project, vals, self.markers)
        obs_l = []
        for sc in range(n_sc):
            if sc > 0:
                with world.notrace():
                    project.attributes._g_sym = None
                    world.prepare_next_scenario(project, sc, info)
                project.attributes._g_sym = G
            world.run_scenario(project, sc)
            obs_l.append(world.observe(project, sc, info))
        # realise the scheduled values of this path; the report code then runs on concrete data
        obs_l = deep_realize(obs_l)
        rvals = deep_realize(vals)
        with world.notrace():
            project.attributes._g_sym = None
            base, end = info["base"], info["end"]
            project.attributes["start"], project.attributes["end"] = base, end
            for t in project.tasks:
                for k in range(n_sc):
                    for attr in ("start", "end"):
                        v = t.get(attr, k)
                        if v is not None and not isinstance(v, datetime):
                            o = obs_l[k]["tasks"][t.fullId][attr]
                            t[(attr, k)] = None if o is None else base + timedelta(seconds=float(o))
                    e = t.get("effort", k)
                    if e is not None and type(e) not in (int, float):
                        t[("effort", k)] = float(deep_realize_outside(e, rvals, spec, t, k))
                    p_ = t.get("priority", k)
                    if p_ is not None and type(p_) is not int:
                        t[("priority", k)] = int(p_)
            for r in project.resources:
                for k in range(n_sc):
                    rs = r.data[k]
                    led = obs_l[k]["res"][r.fullId]["ledger"]
                    rs.slotTaskUsage = {slot: [(project.tasks[tid], float(s)) for tid, s in lst] for slot, lst in led.items()}
            fails = self._judge_reports(project, obs_l)
        self.fail_labels = fails
        return not fails

    def replay(self, vals: dict) -> dict:
        from scriptplan.parser.tjp_parser import ProjectFileParser

        text = render(self.spec, vals, self.defaults)
        with contextlib.redirect_stderr(io.StringIO()), contextlib.redirect_stdout(io.StringIO()):
            project = ProjectFileParser().parse(text)
        info = {"base": project.attributes["start"], "g": project.attributes["scheduleGranularity"], "size": project.scoreboardSize()}
        obs_l = [world.observe(project, sc, info) for sc in range(len(self.spec.scen_names))]
        fails = self._judge_reports(project, obs_l)
        return {"reproduced": bool(fails), "detail": "; ".join(fails[:3]) if fails else "holds natively through the public API", "tjp": text}


def deep_realize_outside(e: Any, rvals: dict, spec: Spec, t: Any, k: int) -> float:
    """effort attribute still symbolic after the run: recompute it from the realised parameter values"""
    st = spec.task(t.fullId)
    sc = spec.scen_names[k]
    x = st.scen_effort.get(sc, None)
    while x is None and spec.scen_parent.get(sc):
        sc = spec.scen_parent[sc]
        x = st.scen_effort.get(sc, None)
    x = x if x is not None else st.effort
    return spec.eval_effort(x, rvals) / 3600.0


# ---- (a) table kernel ---------------------------------------------------------------------------------

def body_table(e: K.Engine) -> None:
    from scriptplan.report.table_report import ReportTable, ReportTableCell, ReportTableLine

    def pick(name: str, n: int) -> int:
        return K.concretize_small(e.int_var(name, 0, n - 1), 0, n - 1, name)

    ncol, nrow = 1 + pick("ncol", 3), pick("nrow", 3)
    pool = ["Id", "Start", "End", "Effort"]
    titles = []
    for c in range(ncol):
        titles.append(pool[pick(f"title{c}", len(pool))])
    if len(set(x.lower() for x in titles)) != len(titles):
        raise K.Infeasible()  # bound: distinct column titles (a JSON record cannot hold two cells under one key)
    tb = ReportTable()
    h = ReportTableLine()
    for tl in titles:
        h.add_cell(ReportTableCell(text=tl))
    tb.add_header_line(h)
    cells = []
    for r_ in range(nrow):
        ln = ReportTableLine()
        row = []
        for c in range(ncol):
            kind = pick(f"cell{r_}_{c}", 2)
            txt = ["", f"v{r_}{c}", "2025-01-06 09:00"][kind]
            ln.add_cell(ReportTableCell(text=txt))
            row.append(txt)
        tb.add_body_line(ln)
        cells.append(row)
    js, cs = tb.to_json(), tb.to_csv()
    e.checks += 1
    ok = cs == [titles] + cells and js["columns"] == [x.lower() for x in titles] and [[rec.get(k) for k in js["columns"]] for rec in js["data"]] == cells
    if ok:
        e.checks_unsat += 1
    else:
        e.violations.append({"label": "ReportTable.to_json and to_csv carry different cells", "inputs": {"titles": titles, "cells": cells, "json": js, "csv": cs}})


def run_table() -> dict:
    e = K.Engine(max_paths=10**6)
    t0 = time.time()

    def fn(en: K.Engine) -> None:
        if time.time() - t0 > 500:
            raise TimeoutError()
        body_table(en)

    timed = False
    try:
        e.explore(fn)
    except TimeoutError:
        timed = True
    res = {"paths": e.paths, "nontrivial": e.nontrivial_paths, "queries": e.queries, "solver_s": round(e.solver_s, 2), "samples": e.path_samples[:1]}
    if e.violations:
        return {**res, "status": R.REFUTED, "counterexamples": e.violations[:3], "detail": "JSON/CSV cells differ"}
    if timed or not e.exhausted:
        return {**res, "status": R.EXPLORED, "detail": "budget"}
    return {**res, "status": R.DISCHARGED, "detail": "all table shapes / title patterns / cell kinds within the bound"}


KINDS = ["basic", "leaf-tf", "scenario", "unscheduled", "explicit-default-tf"]
_chk = sxlib.SxCheck("C18", [], lambda tier: {f"report[{k}]": (lambda k=k: ReportCell(k)) for k in KINDS})
META = dict(sxlib.SX_META, functions=["Report.generate_intermediate_format", "TaskReport._prepare_task_list/_generate_task_line/_generate_task_cell", "TableReport._get_cell_value/_format_value/_get_cost_value",
                                      "TaskScenario.getCost", "ReportTable.to_json/to_csv"],
            bounds="(b) 4 report set-ups: all columns of {id,name,start,end,effort,priority,cost}; leaf-only + report time format vs project time format; 2 scenarios with the "
                   "report on the non-first scenario; an unschedulable task; efforts symbolic (60 s .. 4 h); the report code runs on the realised values of each "
                   "scheduling path (strftime is a C boundary). (a) tables of 1-3 columns x 0-2 rows, titles from a pool (distinct, case-insensitive), cells empty / text / date")


def conditions(tier, seed):
    return _chk.conditions(tier, seed) + [{"name": "table_kernel", "bounds": "<=3 columns x <=2 rows", "timeout": 600}]


def run_condition(name, tier, seed):
    if name == "table_kernel":
        return run_table()
    return _chk.run_condition(name, tier, seed)


def replay(record):
    if record["condition"] == "table_kernel":
        return {"reproduced": True, "detail": "concrete table: " + str(record["inputs"])[:300]}
    return _chk.replay(record)


known_match = sxlib.known_match
