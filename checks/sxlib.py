"""Shared whole-run cells (template family of DESIGN 5.1) and the generic check-module plumbing for the
properties decided by Engine A (CrossHair on the real scheduler)."""
from __future__ import annotations

from datetime import datetime
from typing import Any, Callable, Optional

from sx import oracle as O
from sx.run import Cell, analyze_cell
from sx.spec import Dep, P, Res, Spec, Task
from vlib import runner as R

H = 3600
DAY0 = 9 * H  # Monday 09:00 = first working slot of the default calendar (project starts Monday 00:00)


def S1(n: int, eff: float = 1.0, res: int = 3600, prio: bool = False, length: str = "2w") -> Spec:
    """1 resource, n independent tasks"""
    tasks = [Task(f"t{i}", effort=P(f"e{i}"), alloc=["r"], prio=P(f"p{i}") if prio else None) for i in range(n)]
    return Spec(tasks, [Res("r", eff=eff)], resolution=res, length=length)


def S2(n: int, gap: Optional[str] = None, onstart: bool = False, eff: float = 1.0, res: int = 3600, extra_indep: int = 0) -> Spec:
    """chain t0 -> t1 -> ... on one resource (+ optional independent competitors)"""
    tasks = []
    for i in range(n):
        deps = [Dep(f"t{i - 1}", gap=gap, onstart=onstart)] if i else []
        tasks.append(Task(f"t{i}", effort=P(f"e{i}"), alloc=["r"], deps=deps))
    for j in range(extra_indep):
        tasks.append(Task(f"x{j}", effort=P(f"ex{j}"), alloc=["r"]))
    return Spec(tasks, [Res("r", eff=eff)], resolution=res, length="2w")


def S3(eff: float = 1.0) -> Spec:
    """team allocate r1, r2 + competitor on r2"""
    return Spec([Task("team", effort=P("e0"), alloc=["r1", "r2"], prio=P("p0")),
                 Task("solo", effort=P("e1"), alloc=["r2"], prio=P("p1"))],
                [Res("r1", eff=eff), Res("r2", eff=eff)], length="2w")


def S4() -> Spec:
    """allocate r1 { alternative r2 } + competitor on r1"""
    return Spec([Task("comp", effort=P("e0"), alloc=["r1"], prio=900),
                 Task("flex", effort=P("e1"), alloc=["r1"], alt=["r2"], prio=100)],
                [Res("r1"), Res("r2")], length="2w")


def S4two() -> Spec:
    """allocate r1 { alternative r2, r3 } with r1 kept busy: exactly ONE of the alternatives stands in"""
    return Spec([Task("comp", effort=P("e0"), alloc=["r1"], prio=900),
                 Task("flex", effort=P("e1"), alloc=["r1"], alt=["r2", "r3"], prio=100)],
                [Res("r1"), Res("r2"), Res("r3")], length="2w")


def S5(dated: bool = False) -> Spec:
    """containers c{a, b{d}} with a dependency on a container and one into a container"""
    return Spec([
        Task("pre", effort=P("e0"), alloc=["r"]),
        Task("c", deps=[Dep("pre")], start=(DAY0 + 2 * H) if dated else None),
        Task("a", parent="c", effort=P("e1"), alloc=["r"]),
        Task("b", parent="c"),
        Task("d", parent="c.b", effort=P("e2"), alloc=["r"], deps=[Dep("c.a")]),
        Task("post", effort=P("e3"), alloc=["r"], deps=[Dep("c")]),
    ], [Res("r")], length="2w")


def S10(kind: str) -> Spec:
    """infeasible members: a leaf that cannot be scheduled (its resource never works) inside nested containers"""
    away = Res("away", leaves=["annual 2025-01-01 - 2025-03-01"])
    stuck = Task("stuck", parent="outer.inner", effort=P("e1"), alloc=["away"])
    if kind == "dated":
        stuck.start, stuck.end = DAY0, DAY0 + 8 * H
    elif kind == "start":
        stuck.start = DAY0
    tasks = [Task("outer"), Task("ok", parent="outer", effort=P("e0"), alloc=["r"]), Task("inner", parent="outer"),
             stuck, Task("fine", parent="outer.inner", effort=P("e2"), alloc=["r"]),
             Task("after", effort=P("e3"), alloc=["r"], deps=[Dep("outer.inner.stuck")] if kind == "dep" else [])]
    return Spec(tasks, [Res("r"), away], length="2w")


def S6(kind: str, start: datetime = datetime(2025, 1, 6), length: str = "2w", limit: str = "2h", n: int = 2, alap: bool = False) -> Spec:
    """limits: dailymax / weeklymax on a resource, on a resource group, on a task and on a parent task"""
    lim = {("weeklymax" if kind.startswith("w") else "dailymax"): limit}
    where = kind[1:]
    if where == "res":
        res = [Res("r", limits=lim)]
        tasks = [Task(f"t{i}", effort=P(f"e{i}"), alloc=["r"]) for i in range(n)]
    elif where == "group":
        res = [Res("grp", limits=lim), Res("r", parent="grp"), Res("q", parent="grp")]
        tasks = [Task(f"t{i}", effort=P(f"e{i}"), alloc=["r" if i % 2 == 0 else "q"]) for i in range(n)]
    elif where == "task":
        res = [Res("r"), Res("q")]
        tasks = [Task("t0", effort=P("e0"), alloc=["r"], limits=lim)] + [Task(f"t{i}", effort=P(f"e{i}"), alloc=["r"]) for i in range(1, n)]
    else:  # parent task
        res = [Res("r"), Res("q")]
        tasks = [Task("c", limits=lim)] + [Task(f"t{i}", parent="c", effort=P(f"e{i}"), alloc=["r" if i % 2 == 0 else "q"]) for i in range(n)]
    sp = Spec(tasks, res, start=start, length=length)
    if alap:
        sp.scheduling = "alap"
    return sp


def S7(kind: str) -> Spec:
    """backward scheduling: task-level ALAP with end anchors, project-level ALAP with a container anchor, ALAP chain,
    and two containers with equal local ids"""
    FRI = DAY0 + 4 * 86400 + 8 * H   # Friday 17:00 of the first week
    if kind == "same-deadline":
        tasks = [Task(f"t{i}", effort=P(f"e{i}"), alloc=["r"], scheduling="alap", end=FRI) for i in range(2)]
        return Spec(tasks, [Res("r")], length="2w")
    if kind == "mixed":
        # an ASAP task and an ALAP task meeting inside a slot of one resource
        tasks = [Task("fwd", effort=P("e0"), alloc=["r"], prio=900), Task("bwd", effort=P("e1"), alloc=["r"], scheduling="alap", end=DAY0 + 3 * H, prio=100)]
        return Spec(tasks, [Res("r")], length="2w")
    if kind == "chain":
        tasks = [Task("t0", effort=P("e0"), alloc=["r"]), Task("t1", effort=P("e1"), alloc=["r"], deps=[Dep("t0")], scheduling="alap", end=FRI)]
        return Spec(tasks, [Res("r")], length="2w")
    if kind == "container":
        tasks = [Task("c", end=FRI), Task("a", parent="c", effort=P("e0"), alloc=["r"]), Task("b", parent="c", effort=P("e1"), alloc=["r"], deps=[Dep("c.a")]),
                 Task("x", parent="c", effort=P("e2"), alloc=["q"])]
        return Spec(tasks, [Res("r"), Res("q")], length="2w", scheduling="alap")
    if kind == "project-end":
        tasks = [Task("a", effort=P("e0"), alloc=["r"]), Task("b", effort=P("e1"), alloc=["r"], deps=[Dep("a")])]
        return Spec(tasks, [Res("r")], length="2w", scheduling="alap")
    if kind.startswith("project-end,"):
        # calendar entries that lie (partly) OUTSIDE the project window: a leave on the Friday before the project starts, a leave range
        # spanning the project start / the project end, a leave after the end, a global holiday before the start
        sp = S7("project-end")
        what = kind.split(",", 1)[1]
        r = sp.resources[0]
        if what == "pre-leave":
            r.leaves = ["annual 2025-01-03"]
        elif what == "pre-range":
            r.leaves = ["annual 2024-12-23 - 2025-01-04"]
        elif what == "span-start":
            r.leaves = ["annual 2025-01-03 - 2025-01-07"]
        elif what == "span-end":
            r.leaves = ["annual 2025-01-17 - 2025-01-25"]
        elif what == "post-leave":
            r.leaves = ["annual 2025-01-24"]
        elif what == "pre-vacation":
            r.vacation = ["2025-01-03"]
        elif what == "pre-holiday":
            sp.reports = ['leaves holiday "H" 2025-01-03']
        elif what == "pre-global-vacation":
            sp.vacations = ["2025-01-03", "2024-12-24 - 2025-01-02"]
        else:
            raise ValueError(kind)
        return sp
    # same local ids in two containers
    tasks = [Task("p1", end=FRI), Task("build", parent="p1", effort=P("e0"), alloc=["r"]), Task("test", parent="p1", effort=P("e1"), alloc=["r"], deps=[Dep("p1.build")]),
             Task("p2", end=FRI - 2 * 86400), Task("build", parent="p2", effort=P("e2"), alloc=["q"]), Task("test", parent="p2", effort=P("e3"), alloc=["q"], deps=[Dep("p2.build")])]
    return Spec(tasks, [Res("r"), Res("q")], length="2w", scheduling="alap")


def S2cross(busy: bool = False) -> Spec:
    """predecessor on ANOTHER resource ending inside a slot; a short and a long task on r; optionally a high-priority task keeps r busy
    in the slot of the dependency bound"""
    tasks = [Task("pre", effort=P("e0"), alloc=["q"]), Task("short", effort=P("e1"), alloc=["r"], deps=[Dep("pre")]), Task("long", effort=P("e2"), alloc=["r"])]
    if busy:
        tasks[2].prio = 900
    return Spec(tasks, [Res("r"), Res("q")], length="2w")


def S3mixed() -> Spec:
    """team r1, r2 after a short solo task on r2 (members have different free time in the shared slot), then a long task on r1"""
    return Spec([Task("solo", effort=P("e0"), alloc=["r2"], prio=900), Task("team", effort=P("e1"), alloc=["r1", "r2"], prio=800),
                 Task("long", effort=P("e2"), alloc=["r1"], prio=700)], [Res("r1"), Res("r2")], length="2w")


def S2levels(kind: str) -> Spec:
    """the same predecessor named at two levels of a task's ancestry with different gap / kind"""
    if kind == "outer-gap":
        tasks = [Task("spec", effort=P("e0"), alloc=["r"]), Task("build", deps=[Dep("spec", gap="1d")]),
                 Task("core", parent="build", effort=P("e1"), alloc=["r"], deps=[Dep("spec")])]
    else:
        tasks = [Task("spec", effort=P("e0"), alloc=["r"]), Task("build", deps=[Dep("spec")]),
                 Task("core", parent="build", effort=P("e1"), alloc=["q"], deps=[Dep("spec", gap="1h", onstart=True)])]
    return Spec(tasks, [Res("r"), Res("q")], length="2w")


def Sgroup() -> Spec:
    """a task whose only allocation is a resource GROUP (groups never occupy resource time: such a task cannot be scheduled)"""
    res = [Res("team"), Res("m1", parent="team"), Res("m2", parent="team")]
    tasks = [Task("rel"), Task("review", parent="rel", effort=P("e0"), alloc=["team"]), Task("other", parent="rel", effort=P("e1"), alloc=["m1"]),
             Task("solo", effort=P("e2"), alloc=["m2"])]
    return Spec(tasks, res, length="2w")


def ranges_e(spec: Spec, lo: int, hi: int, prio: tuple[int, int] = (1, 1000)) -> dict[str, tuple[int, int]]:
    out = {}
    for n in spec.params():
        out[n] = prio if n.startswith("p") else (lo, hi)
    return out


# name -> (factory() -> Cell kwargs); oracles are supplied by the property module
def sched_cells(tier: str) -> dict[str, Callable[[], tuple[Spec, dict, Optional[Callable]]]]:
    cells: dict[str, Callable[[], tuple[Spec, dict, Optional[Callable]]]] = {}

    def add(name: str, spec_f: Callable[[], Spec], lo: int, hi: int, pre: Optional[Callable] = None) -> None:
        def f() -> tuple[Spec, dict, Optional[Callable]]:
            s = spec_f()
            return s, ranges_e(s, lo, hi), pre
        cells[name] = f

    # two tasks meeting inside shared slots: efforts as symbolic seconds, several efficiencies / resolutions
    for eff in ([1.0, 0.5, 2.0] if tier == "quick" else [1.0, 0.25, 0.5, 0.75, 1.5, 2.0, 3.0, 4.0]):
        add(f"S1x2[eff={eff}]", lambda eff=eff: S1(2, eff=eff), 60, int(2.5 * H))
        add(f"S2x2[eff={eff}]", lambda eff=eff: S2(2, eff=eff), 60, int(2.5 * H))
    add("S1x2[res=900]", lambda: S1(2, res=900), 60, 2250)
    add("S2x2[res=900]", lambda: S2(2, res=900), 60, 2250)
    for gap in ("29min", "1h", "1d"):
        add(f"S2x2[gap={gap}]", lambda gap=gap: S2(2, gap=gap), 60, int(2.5 * H))
    add("S2x2[onstart]", lambda: S2(2, onstart=True, gap="29min"), 60, int(2.5 * H))
    # three sharers: split into sub-cells by effort ranges (<= 1 slot / 1..2 slots)
    bands = [(60, H), (H + 1, 2 * H)]
    combos = [(a, b, c) for a in range(2) for b in range(2) for c in range(2)]
    if tier == "quick":
        combos = [(0, 0, 0), (0, 1, 0)]
    for (a, b, c) in combos:
        def pre(v: dict, a: int = a, b: int = b, c: int = c) -> bool:
            return bands[a][0] <= v["e0"] <= bands[a][1] and bands[b][0] <= v["e1"] <= bands[b][1] and bands[c][0] <= v["e2"] <= bands[c][1]
        add(f"S1x3[bands={a}{b}{c}]", lambda: S1(3), 60, 2 * H, pre)
        if tier != "quick":
            add(f"S2x3[bands={a}{b}{c}]", lambda: S2(3), 60, 2 * H, pre)
    add("S2x2+1", lambda: S2(2, extra_indep=1), 60, int(1.5 * H))
    if True:
        # narrow bands (each effort within one slot-length band): small path trees that are exhausted
        b3 = [(60, H), (H + 1, 2 * H), (2 * H + 1, 3 * H)]
        for i, (alo, ahi) in enumerate(b3):
            for j, (blo, bhi) in enumerate(b3):
                for nm, mk in (("S1x2", lambda: S1(2)), ("S2x2", lambda: S2(2)), ("S2x2g29", lambda: S2(2, gap="29min")), ("S2cross2", lambda: S2cross())):
                    def f(mk=mk, alo=alo, ahi=ahi, blo=blo, bhi=bhi):
                        sp = mk()
                        rg = {"e0": (alo, ahi), "e1": (blo, bhi)}
                        if "e2" in sp.params():
                            rg["e2"] = (60, H)
                        return sp, rg, None
                    cells[f"{nm}[band={i}{j}]"] = f
        for kind in ("same-deadline", "chain"):
            for i, (alo, ahi) in enumerate(b3[:2]):
                for j, (blo, bhi) in enumerate(b3[:2]):
                    def g(kind=kind, alo=alo, ahi=ahi, blo=blo, bhi=bhi):
                        return S7(kind), {"e0": (alo, ahi), "e1": (blo, bhi)}, None
                    cells[f"S7[{kind},band={i}{j}]"] = g

    def with_milestone(gap=None):
        s = S2(2)
        s.tasks.append(Task("ms", deps=[Dep("t1", gap=gap)]))
        s.tasks.append(Task("after", effort=P("e2"), alloc=["r"], deps=[Dep("ms")]))
        return s
    add("S2x2+milestone", with_milestone, 60, int(1.5 * H))
    add("S2x2+milestone[gap=29min]", lambda: with_milestone("29min"), 60, int(1.5 * H))
    add("S3team", lambda: S3(), 60, 2 * H)
    add("S4alt", lambda: S4(), 60, 3 * H)
    add("S4alt[two]", lambda: S4two(), H, 3 * H)
    add("S5containers", lambda: S5(), 60, 2 * H)
    add("S5dated", lambda: S5(dated=True), 60, 2 * H)
    for kind in ("same-deadline", "chain", "container", "project-end", "same-ids", "mixed"):
        add(f"S7[{kind}]", lambda kind=kind: S7(kind), 60, int(2.5 * H))
    for what in ("pre-leave", "pre-range", "span-start", "span-end", "post-leave", "pre-vacation", "pre-holiday", "pre-global-vacation"):
        add(f"S7[project-end,{what}]", lambda what=what: S7("project-end," + what), 60, int(1.5 * H))
    add("S2cross", S2cross, 60, int(2.5 * H))
    add("S2cross[busy]", lambda: S2cross(True), 60, int(2.5 * H))

    # the dependency bound lies inside a slot that the successor's resource cannot give it (a high-priority task fills it)
    def busy_narrow():
        s = S2cross(True)
        return s, {"e0": (600, 3000), "e1": (60, int(1.5 * H)), "e2": (H, 2 * H)}, None
    cells["S2cross[busy,bound-slot-full]"] = busy_narrow

    # an idle prefix that only the used-seconds counter knows (dependency offset from another resource / a team member waiting for
    # its partner), a task finishing inside that slot, and a later task booking the rest
    def cross_prefix():
        return S2cross(), {"e0": (600, 3000), "e1": (60, 1500), "e2": (H, 2 * H)}, None
    cells["S2cross[prefix]"] = cross_prefix

    def mixed_prefix():
        return S3mixed(), {"e0": (600, 3000), "e1": (60, 1500), "e2": (H, 2 * H)}, None
    cells["S3mixed[prefix]"] = mixed_prefix
    add("S3mixed", S3mixed, 60, int(2.5 * H))
    add("S2levels[outer-gap]", lambda: S2levels("outer-gap"), 60, 2 * H)
    add("S2levels[inner-onstart]", lambda: S2levels("inner-onstart"), 60, 2 * H)
    for kind in ("dres", "wres", "dgroup", "dtask", "dparent"):
        add(f"S6[{kind}]", lambda kind=kind: S6(kind, limit="2h" if kind[0] == "d" else "5h"), H, 6 * H)
    add("Sgroup", Sgroup, 60, 2 * H)
    for kind in ("plain", "dated", "start", "dep"):
        add(f"S10[{kind}]", lambda kind=kind: S10(kind), 60, 2 * H)
    return cells


class SxCheck:
    """generic check module body for an Engine-A property"""

    def __init__(self, pid: str, oracles: list[Callable], cells_f: Callable[[str], dict], quick_budget: int = 150, thorough_budget: int = 300,
                 cell_filter: Optional[Callable[[str], bool]] = None):
        self.pid, self.oracles, self.cells_f = pid, oracles, cells_f
        self.quick_budget, self.thorough_budget = quick_budget, thorough_budget
        self.cell_filter = cell_filter

    def _cells(self, tier: str) -> dict:
        c = self.cells_f(tier)
        if self.cell_filter:
            c = {k: v for k, v in c.items() if self.cell_filter(k)}
        if tier == "quick" and self.cells_f is sched_cells and self.pid in QUICK_CELLS:
            missing = [n for n in QUICK_CELLS[self.pid] if n not in c]
            assert not missing, missing
            c = {n: c[n] for n in QUICK_CELLS[self.pid]}
        elif tier != "quick" and self.cells_f is sched_cells and self.pid in THOROUGH_FAMILIES:
            pref = THOROUGH_FAMILIES[self.pid]
            c = {n: v for n, v in c.items() if n in QUICK_CELLS.get(self.pid, []) or any(n.startswith(p) for p in pref)}
        return c

    def conditions(self, tier: str, seed: int) -> list[dict]:
        b = self.quick_budget if tier == "quick" else self.thorough_budget
        return [{"name": n, "bounds": f"cell {n}: see checks/sxlib.py", "timeout": int(b * 1.6) + 120} for n in self._cells(tier)]

    def make_cell(self, name: str, tier: str) -> Cell:
        made = self._cells(tier)[name]()
        if isinstance(made, Cell):
            return made
        spec, ranges, pre = made
        return Cell(spec, ranges, self.oracles, pre)

    def run_condition(self, name: str, tier: str, seed: int) -> dict:
        cell = self.make_cell(name, tier)
        b = self.quick_budget if tier == "quick" else self.thorough_budget
        # reachability witness: a native run with the default values reaches the judgement with work booked
        try:
            ok = cell.body(*([cell.defaults[n] for n in cell.names] + [cell.spec.resolution]))
        except Exception as e:  # noqa: BLE001 - the real scheduler raised on a plain concrete project
            import traceback

            tb = traceback.extract_tb(e.__traceback__)
            where = next((f"{f.filename.split('/')[-1]}:{f.lineno}" for f in reversed(tb) if "/scriptplan/" in f.filename), "?")
            if where == "?":
                raise  # the harness itself broke
            return {"status": R.REFUTED, "paths": 1, "nontrivial": 0, "queries": 0, "solver_s": 0.0, "samples": [{}],
                    "counterexamples": [{"label": f"scheduling raised {type(e).__name__} at {where}: {e}"[:200], "inputs": dict(cell.defaults)}],
                    "detail": f"exception from repository code in the concrete run with the largest values: {type(e).__name__}"}
        if not ok:
            # the oracle fails on the concrete run with the largest values: a counterexample if the public API shows it too
            rp = cell.replay(dict(cell.defaults))
            if rp.get("reproduced"):
                return {"status": R.REFUTED, "paths": 1, "nontrivial": 0, "queries": 0, "solver_s": 0.0, "samples": [{}],
                        "counterexamples": [{"label": "concrete run with the largest values: " + "; ".join(str(x) for x in cell.fail_labels[:3])[:200],
                                             "inputs": dict(cell.defaults)}],
                        "detail": "the oracle fails on the concrete witness run (largest values of the ranges)"}
        import time as _t

        t0 = _t.time()
        spurious: list[dict] = []
        total_paths = 0
        for _attempt in range(6):
            res = analyze_cell(cell, max(20.0, b - (_t.time() - t0)))
            total_paths += res.get("paths", 0)
            if res["status"] != R.REFUTED:
                break
            real = []
            for cex in res.get("counterexamples", []):
                rp = cell.replay(cex["inputs"])
                if rp.get("reproduced"):
                    real.append(cex)
                else:
                    spurious.append({"inputs": cex["inputs"], "detail": rp.get("detail"), "model_labels": cex.get("model_labels")})
            if real:
                res["counterexamples"] = real
                break
            # model artefact (e.g. round() on an exact tie in real arithmetic): exclude the point and search again
            pts = [dict(x["inputs"]) for x in spurious]
            prev = cell.extra_pre

            def pre2(v: dict, pts: list = pts, prev: Any = prev) -> bool:
                if prev is not None and not prev(v):
                    return False
                return all(any(v[k] != p[k] for k in p) for p in pts)

            cell.extra_pre = pre2
        else:
            res = {**res, "status": R.INCONCLUSIVE, "detail": f"{len(spurious)} non-reproducing counterexamples in a row"}
        res["paths"] = total_paths
        if spurious:
            res["spurious_points"] = spurious[:6]
            if res["status"] == R.DISCHARGED:
                res["detail"] = str(res.get("detail")) + f" (after excluding {len(spurious)} non-reproducing model artefacts)"
        res.setdefault("samples", [{}])
        res["samples"][0]["bounds"] = {k: list(v) for k, v in cell.ranges.items()}
        res["samples"][0]["tjp_default"] = cell.text[:600]
        w = _window_sizes(cell)
        if w and len(set(w.values())) > 1:
            # the parser extends the project end when the efforts need more room: the traced project (rendered with marker values) then has
            # a window that differs from the one of the real project for some values of the ranges (counterexamples are replayed on the real one)
            res["samples"][0]["window_depends_on_values"] = w
        res["witness_default_values_ok"] = bool(ok)
        return res

    def replay(self, record: dict) -> dict:
        name = record["condition"]
        tier = "thorough" if name not in self._cells("quick") else "quick"
        cell = self.make_cell(name, tier)
        return cell.replay(record["inputs"])


def _window_sizes(cell: Any) -> dict:
    """slots of the project window after the scheduler's preparation, for the marker values (= the traced project) and for the smallest /
    largest values of the ranges"""
    import contextlib
    import io

    from sx import world
    from sx.spec import render

    out = {}
    try:
        for nm, vals in (("traced", cell.markers), ("lo", {k: cell.ranges[k][0] for k in cell.names}), ("hi", {k: cell.ranges[k][1] for k in cell.names})):
            sizes = []
            for sp in getattr(cell, "specs", [cell.spec]):
                with contextlib.redirect_stderr(io.StringIO()), contextlib.redirect_stdout(io.StringIO()):
                    sizes.append(world.prepare(world.parse(render(sp, vals)))["size"])
            out[nm] = sizes[0] if len(sizes) == 1 else tuple(sizes)
    except Exception:  # noqa: BLE001 - informational only
        return {}
    return out


def known_match(k: dict, record: dict) -> bool:
    m = k.get("match", {})
    det = str(record.get("replay", {}).get("detail", ""))
    if "detail_contains" in m and m["detail_contains"] not in det:
        return False
    if "condition_prefix" in m and not record.get("condition", "").startswith(m["condition_prefix"]):
        return False
    return True


SX_META = {
    "level": "other",
    "explanation": "bounded symbolic execution (CrossHair 0.0.110 / z3) of the real Project.scheduleScenario + finishScenario (and everything "
                   "below: TaskScenario.schedule/scheduleSlot/bookResources/bookResource/_calculatePreciseEndTimeAndRelease, ResourceScenario."
                   "available/book, Limit.ok/inc) on projects built from declarative specs; efforts (whole seconds), priorities and pinned offsets are "
                   "symbolic integers within stated ranges; a cell is 'discharged' only if CrossHair exhausted its path tree with verdict CONFIRMED "
                   "(reals mode), otherwise it is reported as explored; counterexamples are replayed through the public API (parse+schedule of the "
                   "rendered .tjp with real datetimes and the extensions enabled) and reported only if they reproduce",
    "assumptions": ["floats are mathematical reals inside the traced run (RealBasedSymbolicFloat, no UNKNOWN cap)", "project clock = IntTime (integer seconds)",
                    "per-resource onShift() and Limit._idx_to_sb_idx are tabulated beforehand by the real methods (pure functions of concrete data)",
                    "pure-Python fallbacks are what is traced (C13 decides their equivalence with the extensions)"],
    "stubs": ["IntTime project clock", "onShift / limit-period tables", "Project.warning captured"],
    "trusted_base": ["CrossHair 0.0.110", "z3 5.1.0", "CPython 3.12", "sx/oracle.py (independent oracles)"],
}


# which cells of the shared family each property runs in the QUICK tier (the thorough tier runs the property's families):
# narrow band cells that are exhausted in 10-60 s each, the narrow structural cells that catch the seeded changes, a few wide ones
_BANDS = ["S1x2[band=00]", "S1x2[band=01]", "S1x2[band=11]", "S2x2[band=00]", "S2x2[band=01]", "S2x2[band=10]", "S2x2g29[band=00]", "S2x2g29[band=01]",
          "S2cross2[band=00]", "S2cross2[band=10]", "S7[same-deadline,band=00]", "S7[chain,band=00]"]
QUICK_CELLS = {
    "C01": _BANDS + ["S1x2[eff=1.0]", "S1x2[eff=0.5]", "S1x2[res=900]", "S2x2[eff=1.0]", "S1x3[bands=000]", "S2x2+1", "S3team", "S3mixed[prefix]", "S4alt",
                     "S2cross[prefix]", "S7[same-deadline]", "S7[mixed]", "S2x2[onstart]"],
    "C03": _BANDS + ["S1x2[eff=1.0]", "S1x2[eff=0.5]", "S1x2[eff=2.0]", "S2x2[res=900]", "S1x3[bands=010]", "S3team", "S3mixed", "S3mixed[prefix]", "S4alt", "S4alt[two]",
                     "S7[container]", "S5containers", "S6[dres]"],
    "C04": _BANDS + ["S2x2[gap=1h]", "S2x2[gap=1d]", "S2x2[onstart]", "S5containers", "S5dated", "S2x2+milestone", "S2x2+milestone[gap=29min]",
                     "S2levels[outer-gap]", "S2levels[inner-onstart]", "S7[chain]", "S7[container]", "S7[same-ids]", "S10[dep]"],
    "C06": _BANDS + ["S1x2[eff=1.0]", "S1x2[eff=2.0]", "S2x2[eff=0.5]", "S2x2[res=900]", "S2x2+milestone", "S2x2+milestone[gap=29min]", "S3team",
                     "S3mixed[prefix]", "S2cross[prefix]", "S2cross[busy,bound-slot-full]", "S7[same-deadline]", "S7[container]", "S7[project-end]", "S7[mixed]"],
    "C08": _BANDS + ["S1x2[eff=1.0]", "S2x2[eff=0.5]", "S2x2[gap=1h]", "S2x2[onstart]", "S2x2+1", "S3team", "S3mixed[prefix]", "S2cross[prefix]",
                     "S2cross[busy,bound-slot-full]", "S7[same-deadline]", "S7[chain]", "S7[container]", "S7[project-end]", "S7[same-ids]",
                     "S7[project-end,pre-leave]", "S7[project-end,span-start]", "S7[project-end,span-end]", "S7[project-end,pre-holiday]"],
    "C10": ["Sgroup", "S5containers", "S5dated", "S10[plain]", "S10[dated]", "S10[start]", "S10[dep]", "S3team", "S7[container]", "S7[same-ids]", "S2levels[outer-gap]", "S6[dparent]", "S6[dgroup]"],
}

# the thorough tier of a property = its quick cells + every cell of the families relevant to it
THOROUGH_FAMILIES = {
    "C01": ["S1x2", "S2x2[", "S2x2g29", "S1x3", "S2x3", "S2cross", "S3", "S4", "S7[same-deadline", "S7[chain", "S2x2+1"],
    "C03": ["S1x2", "S2x2[", "S3", "S4", "S2cross", "S7[same-deadline", "S6[dres", "S5containers"],
    "C04": ["S2x2[gap", "S2x2g29", "S2x2[onstart", "S2x2[band", "S5", "S2levels", "S2x2+milestone", "S7[chain", "S7[container", "S7[same-ids", "S10[dep", "S2cross2"],
    "C06": ["S1x2[band", "S2x2[", "S2x2g29", "S2x2+milestone", "S3", "S2cross", "S7"],
    "C08": ["S1x2[band", "S2x2[", "S2x2g29", "S3", "S2cross", "S7", "S2x2+1"],
    "C10": ["Sgroup", "S5", "S10", "S7[container", "S7[same-ids", "S3team", "S6[dparent", "S6[dgroup", "S2levels"],
}
