"""C12 - same input, same output, independent of history and process state (Engine A, relational).

In-process history can influence a later run only through process-wide state.  An AST scan of the current tree lists
every class attribute / module global / logging setting that package code writes; each is put into a perturbed state
(or the state left by a preceding different / failing run) before the SAME project is parsed and scheduled, and the
dates are compared with those obtained from the pristine state inside the same symbolic path.  A global the scan finds
but this module does not know how to perturb is a harness error.  PYTHONHASHSEED, other worker processes and
fresh-process byte equality are outside the technique (not solver variables)."""
import contextlib
import io
import logging

from sx import globalscan, world
from sx.run import Cell, RelCell, same_dates
from sx.spec import Dep, P, Res, Spec, Task

from . import sxlib
from .sxlib import H, S1, S2, S5, S6

PROPERTY = "C12"

KNOWN = {
    "cls._mode": "AttributeBase._mode: perturbed by the mode[...] cells",
    "cls._tz": "TjTime._tz: only written by the API classmethod setTimeZone, perturbed by tz cells",
    "cls._instance": "singletons (MessageHandlerInstance, Log, DataCache): state perturbed by the msg cells",
    "cls._segments": "Log display state", "cls._level": "Log display state", "cls._progress": "Log display state",
    "cls._progressMeter": "Log display state", "cls._silent": "Log display state",
    "logging.basicConfig": "logging level, perturbed by the logging cell", "logging.getLogger().setLevel": "logging level",
    "logging.getLogger(f'scriptplan.{module}').setLevel": "logging level",
}

OTHER_OK = '''project o "O" 2024-03-04 +3w { timezone "UTC" scenario plan "P" { scenario alt "A" } }
resource q "Q" { limits { dailymax 3h } }
task grp "G" { priority 700 allocate q task k1 "K1" { effort 9h } task k2 "K2" { effort 5h depends !k1 } }
'''
OTHER_SYNTAX = 'project o "O" 2024-03-04 +3w {\n task broken {{{\n'
OTHER_STUCK = '''project o "O" 2024-03-04 +1w { timezone "UTC" }
resource q "Q" { leaves annual 2024-01-01 - 2024-12-31 }
task a "A" { effort 3h allocate q start 2024-03-05 }
task b "B" { effort 3h allocate q depends !a }
'''


def base(kind: str) -> Spec:
    if kind == "inherit":
        # children inherit allocate and priority from their container (the inheritance depends on AttributeBase mode flags)
        return Spec([Task("build", alloc=["r"], prio=700), Task("one", parent="build", effort=P("e0")), Task("two", parent="build", effort=P("e1")),
                     Task("three", effort=P("e2"), alloc=["r"], prio=300)], [Res("r")], length="4w")
    if kind == "chain":
        return S2(2)
    return S6("dres", limit="2h")


def perturb(kind: str):
    def before(k: int) -> None:
        from scriptplan.core.property import AttributeBase
        from scriptplan.utils.message_handler import MessageHandlerInstance

        if k == 0:
            AttributeBase._mode = 0
            logging.getLogger().setLevel(logging.WARNING)
            return
        if kind.startswith("mode="):
            AttributeBase._mode = int(kind.split("=")[1])
        elif kind == "logging":
            logging.getLogger().setLevel(logging.DEBUG)
            logging.getLogger("scriptplan").setLevel(logging.CRITICAL)
        elif kind == "msg":
            mh = MessageHandlerInstance()
            for attr in ("_errors",):
                if hasattr(mh, attr) and isinstance(getattr(mh, attr), int):
                    setattr(mh, attr, 7)
            for attr in ("_messages", "messages"):
                if hasattr(mh, attr) and isinstance(getattr(mh, attr), list):
                    getattr(mh, attr).extend(["stale"] * 3)
        else:
            text = {"after_ok": OTHER_OK, "after_syntax": OTHER_SYNTAX, "after_stuck": OTHER_STUCK}[kind]
            from scriptplan.parser.tjp_parser import ProjectFileParser

            with contextlib.redirect_stderr(io.StringIO()), contextlib.redirect_stdout(io.StringIO()):
                try:
                    ProjectFileParser().parse(text)
                except Exception:  # noqa: BLE001 - a failing earlier run is part of the history
                    pass
    return before


class Reschedule(Cell):
    """schedule() called again on an already scheduled project"""

    def body(self, *a: int) -> bool:
        from sx.spec import inject

        vals = dict(zip(self.names, a))
        with world.notrace():
            project = world.parse(self.text)
            info = world.prepare(project)
        world.set_symbolic_granularity(project, a[len(self.names)], self.spec.resolution)
        inject(self.spec, project, vals, self.markers, [0])
        world.run_scenario(project, 0)
        o1 = world.observe(project, 0, info)
        # second pass of what Project.schedule() does per scenario (the horizon/scoreboard set-up is a function of concrete
        # data and is not repeated here): prepareScenario, scheduleScenario, finishScenario
        G = project.attributes._g_sym
        with world.notrace():
            project.attributes._g_sym = None
            world.prepare_next_scenario(project, 0, info)
        project.attributes._g_sym = G
        world.run_scenario(project, 0)
        o2 = world.observe(project, 0, info)
        tids = [self.spec.full_id(t) for t in self.spec.tasks]
        fails = same_dates(tids, o1, o2, "C12 second schedule() call changed")
        for rid, r in o1["res"].items():
            for slot, lst in r["ledger"].items():
                l2 = o2["res"][rid]["ledger"].get(slot, [])
                if len(l2) != len(lst):
                    fails.append(f"C12 second schedule() call changed the bookings of {rid} slot {slot}")
        self.fail_labels = fails
        return not fails

    def replay(self, vals: dict) -> dict:
        from scriptplan.parser.tjp_parser import ProjectFileParser
        from sx.spec import render

        text = render(self.spec, vals, self.defaults)
        with contextlib.redirect_stderr(io.StringIO()), contextlib.redirect_stdout(io.StringIO()):
            project = ProjectFileParser().parse(text)
            info = {"base": project.attributes["start"], "g": project.attributes["scheduleGranularity"], "size": project.scoreboardSize()}
            o1 = world.observe(project, 0, info)
            project.schedule()
            o2 = world.observe(project, 0, info)
        tids = [self.spec.full_id(t) for t in self.spec.tasks]
        fails = same_dates(tids, o1, o2, "C12 second schedule() call changed")
        return {"reproduced": bool(fails), "detail": "; ".join(fails[:3]) or "holds natively", "tjp": text}


def cells(tier: str) -> dict:
    out = {}
    unknown = [f for f in globalscan.scan() if f["target"] not in KNOWN]

    def add(name, kind, pert, emax=3 * H):
        def f():
            if unknown:
                raise RuntimeError(f"process-wide state written by the package that C12 does not know how to perturb: {unknown[:3]}")
            b = base(kind)
            rg = {p: (60, emax) for p in b.params()}
            tids = [b.full_id(t) for t in b.tasks]

            def rel(specs, vals, obs, infos):
                return same_dates(tids, obs[0], obs[1], f"C12 state left by history ({pert}) changed")
            return RelCell([b, b], rg, rel, before_each=perturb(pert))
        out[name] = f

    for m in (1, 2):
        add(f"inherit[mode={m},narrow]", "inherit", f"mode={m}", emax=H)
    add("chain[mode=2,narrow]", "chain", "mode=2", emax=H)
    add("inherit[after_stuck,narrow]", "inherit", "after_stuck", emax=H)
    for m in (1, 2, 5):
        add(f"inherit[mode={m}]", "inherit", f"mode={m}")
    add("chain[mode=2]", "chain", "mode=2")
    add("limits[mode=1]", "limits", "mode=1", emax=5 * H)
    for pert in ("after_ok", "after_syntax", "after_stuck", "logging", "msg"):
        add(f"inherit[{pert}]", "inherit", pert)
    add("limits[after_ok]", "limits", "after_ok", emax=5 * H)

    def resched(kind):
        def f():
            b = base(kind)
            return Reschedule(b, {p: (60, 3 * H) for p in b.params()}, [])
        return f
    def starved():
        # r works in the first week only; a fills it (at 40 h exactly), c and d find nothing left and stay unscheduled
        sp = Spec([Task("a", effort=P("e0"), alloc=["r"]), Task("c", effort=P("e1"), alloc=["r"]), Task("d", effort=P("e2"), alloc=["r"], deps=[Dep("c")])],
                  [Res("r", vacation=["2025-01-13 - 2025-04-01"])], length="2w")
        return Reschedule(sp, {"e0": (39 * H + 1800, 40 * H), "e1": (H, 2 * H), "e2": (H, 2 * H)}, [])
    out["reschedule[starved]"] = starved
    out["reschedule[chain]"] = resched("chain")
    out["reschedule[limits]"] = resched("limits")
    return out


_chk = sxlib.SxCheck("C12", [], cells)
META = dict(sxlib.SX_META, functions=["ProjectFileParser.parse (concrete, before tracing)", "Project.__init__", "Project.schedule", "AttributeBase mode flags", "PropertyTreeNode.inheritAttributes"],
            bounds="process-wide state found by the AST scan (AttributeBase._mode in {1,2,5}, logging levels, message-handler counters, the state left by an "
                   "earlier successful / syntactically broken / unschedulable project) x {container-inheritance, chain, dailymax} projects with symbolic efforts; "
                   "schedule() called a second time. OUTSIDE: PYTHONHASHSEED, worker processes, fresh-process byte equality",
            scan_known=KNOWN)
conditions, run_condition, replay, known_match = _chk.conditions, _chk.run_condition, _chk.replay, sxlib.known_match
