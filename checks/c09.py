"""C09 - lower-priority work never disturbs higher-priority work (Engine A, two-run relational harness)."""
import copy

from sx.run import RelCell, same_dates
from sx.spec import Dep, P, Res, Spec, Task

from . import sxlib
from .sxlib import DAY0, H, S1, S2, S3, S5

PROPERTY = "C09"


def with_x(base: Spec, res: str, pinned: bool = False, alap: bool = False) -> Spec:
    s = copy.deepcopy(base)
    if alap:
        # the added task is scheduled backward from a fixed end (symbolic hour offset)
        s.tasks.append(Task("zz_added", effort=P("ex"), alloc=[res], prio=1, scheduling="alap", end=P("sx")))
        s.time_unit = H
    else:
        s.tasks.append(Task("zz_added", effort=P("ex"), alloc=[res], prio=1, start=P("sx") if pinned else None))
        if pinned:
            s.time_unit = H
    return s


def base_milestone() -> Spec:
    """a high-priority task that depends on an undated milestone declared after it with lower priority"""
    return Spec([Task("h", effort=P("e0"), alloc=["r"], prio=900, deps=[Dep("m")]),
                 Task("w", effort=P("e1"), alloc=["r"], prio=800),
                 Task("m", prio=100, deps=[Dep("w")])], [Res("r")], length="4w")


def base_prio(n: int) -> Spec:
    s = S1(n, prio=True, length="4w")
    return s


def cells(tier: str) -> dict:
    out = {}

    def add(name, base_f, res, emax=3 * H, pinned=False, alap=False):
        def f():
            b = base_f()
            b.length = "4w"
            bx = with_x(b, res, pinned, alap)
            rg = {}
            for n in bx.params():
                rg[n] = (60, emax) if n.startswith("e") else ((2, 1000) if n.startswith("p") else ((10, 60) if alap else (0, 80)))
            tids = [b.full_id(t) for t in b.tasks]

            def rel(specs, vals, obs, infos):
                return same_dates(tids, obs[0], obs[1], "C09 adding a lowest-priority task changed")
            return RelCell([b, bx], rg, rel)
        out[name] = f

    add("S1x2+X", lambda: base_prio(2), "r")
    add("S1x2+X[pinned]", lambda: base_prio(2), "r", pinned=True)
    add("S1x2+X[alap-end]", lambda: base_prio(2), "r", alap=True)
    add("S2x2+X[alap-end,narrow]", lambda: S2(2), "r", emax=H, alap=True)
    add("S2x2+X", lambda: S2(2), "r")
    add("S3team+X[r1]", S3, "r1")
    add("S3team+X[r2]", S3, "r2")
    add("S5+X", S5, "r", emax=2 * H)
    add("milestone+X", base_milestone, "r")
    # narrow variants (all efforts within one slot): path trees small enough to be exhausted
    add("S1x2+X[narrow]", lambda: base_prio(2), "r", emax=H)
    add("S2x2+X[narrow]", lambda: S2(2), "r", emax=H)
    add("milestone+X[narrow]", base_milestone, "r", emax=H)
    add("S3team+X[r2,narrow]", S3, "r2", emax=H)
    if tier != "quick":
        add("S1x3+X", lambda: base_prio(3), "r", emax=2 * H)
        add("S2x3+X", lambda: S2(3), "r", emax=2 * H)
    return out


_chk = sxlib.SxCheck("C09", [], cells)
META = dict(sxlib.SX_META, functions=["Project.scheduleScenario (sort_key, ready loop)", "TaskScenario.schedule", "ResourceScenario.book"],
            bounds="base projects S1/S2/S3/S5/milestone-dependency with symbolic efforts (60 s .. 3 h) and priorities (2..1000); the added task has priority 1, "
                   "symbolic effort, optional symbolic pinned start (hour offset 0..80), nothing depends on it; both projects 4 weeks long (same horizon)")
conditions, run_condition, replay, known_match = _chk.conditions, _chk.run_condition, _chk.replay, sxlib.known_match
