"""C20 - CLI runs leave no trace and do not interfere with each other (Engine C, same OS model as C19)."""
from __future__ import annotations

from typing import Any

from fsx import harness as H
from fsx import model as M
from ksym import engine as K

from . import c19

PROPERTY = "C20"
META = dict(c19.META)
META["explanation"] = (c19.META["explanation"] + "; asserted on every exit path: nothing the run created still exists, and nothing was "
                       "created outside the paths handed out by mkstemp/mkdtemp of this run; concurrency is decided by footprint "
                       "disjointness of two modelled runs with distinct temp-name seeds (under the OS guarantee that mkstemp/mkdtemp "
                       "names are unique, disjoint write footprints make every interleaving equal to the solitary runs - stated "
                       "argument, interleavings are not enumerated)")
META["bounds"] = c19.META["bounds"] + "; two runs for the interference condition"


def conditions(tier: str, seed: int) -> list[dict]:
    ks = [0, 1] if tier == "quick" else [0, 1, 2]
    cs = [{"name": f"clean[faults={k}]", "bounds": META["bounds"], "timeout": 900 if tier == "quick" else 3400, "weight": 100 + 900 * k} for k in ks]
    cs.append({"name": "two_runs", "bounds": "two runs (same or different input) in one file system, distinct temp-name seeds, <=1 fault in the first", "timeout": 900})
    return cs


def body_clean(tier: str) -> Any:
    def body(en: K.Engine, ch: M.Chooser) -> dict:
        scn = H.pick_scenario(ch, tier)
        obs, w, data = H.model_run(ch, scn)
        fails = H.judge_c20(scn, obs)
        en.checks += 1
        if fails:
            c19.report_failures(en, fails, scn, ch)
        else:
            en.checks_unsat += 1
        return {"nontrivial": bool(obs["footprint"]), "sample": {"scenario": scn, "faults": ch.trace.get("fault_ops", []), "exit": obs["exit_code"], "footprint": obs["footprint"][:6]}}

    return body


def body_two(tier: str) -> Any:
    def body(en: K.Engine, ch: M.Chooser) -> dict:
        scn = H.pick_scenario(ch, "quick")
        if scn["verbose"] or scn["quiet"] or scn.get("output"):
            raise K.Infeasible()  # two runs told to write the same -o file interfere by request
        w = M.World(ch, "A")
        o1, _, _ = H.model_run(ch, scn, "A", w)
        # second run: same input and flags, or the other format
        scn2 = dict(scn)
        if ch.flag("second_other_format"):
            scn2["fmt"] = "csv" if scn["fmt"] == "json" else "json"
        solo, _, _ = H.model_run(M.Chooser(None, fixed={k: v for k, v in ch.trace.items() if k != "faults"} | {"faults": []}), scn2, "B")
        # replay the environment decisions of run 2 without faults, in the file system run 1 left behind
        ch2 = M.Chooser(None, fixed={k: v for k, v in ch.trace.items() if k != "faults"} | {"faults": []})
        w.ch = ch2
        o2, _, _ = H.model_run(ch2, scn2, "B", w)
        fails = []
        inter = set(o1["footprint"]) & set(o2["footprint"])
        if inter:
            fails.append(f"write footprints of two runs intersect: {sorted(inter)[:4]}")
        foreign = [p for p in o2["reads"] if p in set(o1["footprint"])]
        if foreign:
            fails.append(f"second run reads files written by the first: {foreign[:4]}")
        if o2["exit_code"] != solo["exit_code"] or _norm(o2["stdout"]) != _norm(solo["stdout"]):
            fails.append("second run's output differs from its solitary output")
        en.checks += 1
        if fails:
            c19.report_failures(en, fails, scn, ch)
        else:
            en.checks_unsat += 1
        return {"nontrivial": True, "sample": {"scenario": scn, "footprints": [o1["footprint"][:4], o2["footprint"][:4]]}}

    return body


def _norm(out: list[str]) -> str:
    return "".join(out)


def run_condition(name: str, tier: str, seed: int) -> dict:
    if name.startswith("clean"):
        k = int(name.split("=")[1].rstrip("]"))
        return c19.explore(body_clean(tier), 850 if tier == "quick" else 3300, k)
    return c19.explore(body_two(tier), 850, 1)


def replay(record: dict) -> dict:
    inp = record["inputs"]
    scn, trace = inp["scenario"], inp.get("trace", {})
    if record.get("label", "").startswith(("write footprints", "second run")):
        return {"reproduced": False, "detail": "interference counterexamples are model-level; confirm by reading the touched paths"}
    rf = H.real_faults_from_trace(trace)
    if rf is None:
        return {"reproduced": False, "detail": "fault position has no real-world realisation in the replay runner"}
    obs, data = H.real_run(scn, rf)
    fails = H.judge_c20(scn, obs)
    return {"reproduced": bool(fails), "detail": f"real run: exit {obs['exit_code']}; TMPDIR leftovers {obs['leftovers']}; cwd {obs['outside']}"}


known_match = c19.known_match
