"""C11 - scheduling is total: it terminates and reports, never crashes or hangs (Engine A)."""
from sx import oracle as O
from sx.spec import Dep, P, Res, Spec, Task

from . import sxlib
from .sxlib import DAY0, H, S1, S2, S6, S10, ranges_e

PROPERTY = "C11"


def cyc(kind: str) -> Spec:
    if kind == "2cycle":
        tasks = [Task("a", effort=P("e0"), alloc=["r"], deps=[Dep("b")]), Task("b", effort=P("e1"), alloc=["r"], deps=[Dep("a")]), Task("c", effort=P("e2"), alloc=["r"])]
    elif kind == "self":
        tasks = [Task("a", effort=P("e0"), alloc=["r"], deps=[Dep("a")]), Task("c", effort=P("e1"), alloc=["r"])]
    else:  # dependency on a container that contains the dependent
        tasks = [Task("c"), Task("a", parent="c", effort=P("e0"), alloc=["r"], deps=[Dep("c")]), Task("b", parent="c", effort=P("e1"), alloc=["r"])]
    return Spec(tasks, [Res("r")], length="2w")


def pinned(n: int = 2) -> Spec:
    tasks = [Task("t0", effort=P("e0"), alloc=["r"], start=P("s0")), Task("t1", effort=P("e1"), alloc=["r"], deps=[Dep("t0")])]
    return Spec(tasks, [Res("r")], length="2w", time_unit=60)


def cells(tier: str) -> dict:
    out = {}

    def add(name, spec_f, ranges_f, pre=None):
        def f():
            s = spec_f()
            return s, ranges_f(s), pre
        out[name] = f

    big = 400 * H
    add("S1x2[0..huge]", lambda: S1(2, length="2w"), lambda s: ranges_e(s, 0, big))
    add("S2x2[0..huge]", lambda: S2(2), lambda s: ranges_e(s, 0, big))
    add("S1x2[prio,0..huge]", lambda: S1(2, prio=True), lambda s: ranges_e(s, 0, big))
    for kind in ("plain", "dated", "start", "dep"):
        add(f"S10[{kind}]", lambda kind=kind: S10(kind), lambda s: ranges_e(s, 0, 3 * H))
    for kind in ("2cycle", "self", "container"):
        add(f"cycle[{kind}]", lambda kind=kind: cyc(kind), lambda s: ranges_e(s, 0, 3 * H))
    # pinned start from two days before the project start to two days past its end (project is 14 days long)
    add("pinned[s0 in -2d..16d]", pinned, lambda s: {"e0": (0, 3 * H), "e1": (0, 3 * H), "s0": (-2 * 1440, 16 * 1440)})  # minutes
    # degenerate but grammatical resources: efficiency 0 on the primary / on the alternative of an allocation, a group as only allocation
    def alt_eff0(which):
        r1, r2 = Res("r1", eff=0.0 if which == "primary" else 1.0), Res("r2", eff=0.0 if which == "alternative" else 1.0)
        return Spec([Task("comp", effort=P("e0"), alloc=["r1"], prio=900), Task("flex", effort=P("e1"), alloc=["r1"], alt=["r2"], prio=100)], [r1, r2], length="2w")
    add("alt[eff0,primary]", lambda: alt_eff0("primary"), lambda s: ranges_e(s, 0, 3 * H))
    add("alt[eff0,alternative]", lambda: alt_eff0("alternative"), lambda s: ranges_e(s, 0, 3 * H))
    add("Sgroup", sxlib.Sgroup, lambda s: ranges_e(s, 0, 3 * H))
    add("S6[dres,0..huge]", lambda: S6("dres", limit="2h"), lambda s: ranges_e(s, 0, 60 * H))
    add("S6[wres,0..huge]", lambda: S6("wres", limit="5h"), lambda s: ranges_e(s, 0, 60 * H))
    return out


_chk = sxlib.SxCheck("C11", [O.total_ok], cells)
META = dict(sxlib.SX_META, functions=["Project.scheduleScenario", "TaskScenario.schedule (lowerLimit/upperLimit walk)", "Scoreboard.__getitem__", "ResourceScenario.available",
                                      "Limit.ok/inc"],
            bounds="efforts 0 .. 400 h (horizon 2 weeks) as symbolic seconds, pinned start from 2 days before the project start to 2 days past its end, "
                   "2-cycles / self-dependency / dependency on the own container, resources that never work, limits; <=4 leaf tasks. NOT covered: "
                   "parser rejection of ungrammatical/corrupted text (Lark over symbolic strings is out of reach), macro expansion bound")
conditions, run_condition, replay, known_match = _chk.conditions, _chk.run_condition, _chk.replay, sxlib.known_match
