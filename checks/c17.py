"""C17 - slot/time conversion and interval scanning obey their algebra.

Engine B (ksym): the real function objects Scoreboard.__init__/idxToDate/dateToIdx/collectIntervals
and Project.dateToIdx/idxToDate/scoreboardSize are executed on z3-backed integer-time values; the
Cython bodies are executed from a transliteration of the current .pyx text.
"""
from __future__ import annotations

import shutil
import os
import time
from typing import Any

from ksym import engine as K
from vlib import runner as R

from . import kern

PROPERTY = "C17"
SUPPORTED = [60 * m for m in range(1, 61)]  # every whole-minute resolution from 1 min to 1 h
QUICK_EXTRA = [90, 141, 1000, 2048, 3599]  # not whole minutes (1.5min, 2.35min, ...); the thorough tier has 71 of them
QUICK_RES = SUPPORTED + QUICK_EXTRA
# thorough tier only: resolutions inside 1 min .. 1 h that are not whole minutes (`timingresolution 1.5min`, `2.35min`,
# `0.0175h` are accepted by the parser: int(value * 60|3600) seconds) - every odd multiple of 30 s and a spread of odd seconds
FRACTIONAL = sorted({30 * m for m in range(3, 120, 2)} | {61, 67, 89, 141, 333, 1000, 1001, 1799, 2048, 2999, 3333, 3599})
THOROUGH_RES = SUPPORTED + FRACTIONAL

META = {
    "level": "other",
    "explanation": "bounded symbolic execution (own executor 'ksym', z3 5.1.0) of the real Scoreboard / Project "
                   "index functions (Python bodies as function objects, Cython bodies from a transliteration of the "
                   "current .pyx regenerated on every run); each path ends in one query path_condition AND NOT property; "
                   "counterexamples are replayed natively with real datetimes (and freshly built extensions)",
    "functions": ["scriptplan.scheduler.scoreboard.Scoreboard.__init__", "Scoreboard.idxToDate", "Scoreboard.dateToIdx",
                  "Scoreboard.collectIntervals", "scriptplan.core.project.Project.dateToIdx", "Project.idxToDate",
                  "Project.scoreboardSize", "scoreboard_cy.pyx: date_to_idx_fast, idx_to_date_fast, collect_intervals_fast",
                  "time_utils_cy.pyx: project_date_to_idx, project_idx_to_date"],
    "bounds": "window length 0..2**31 s, indices < 2**31, every whole-minute resolution 60*m, m = 1..60, and 90, 141, 1000, 2048, 3599 s "
              "(thorough: also every odd multiple of 30 s below 1 h and 12 resolutions in odd seconds), "
              "interval scan over tables of <= N slots (quick 6, thorough 9), min duration <= 4 slots; "
              "instants are whole seconds",
    "assumptions": ["one IEEE-754 double division a/b of integer-valued doubles is exact when b | a and otherwise within "
                    "2**-20 of the exact quotient (sound for |a/b| < 2**32, asserted per path)",
                    "instants are whole seconds (integer-time model MTime/MDelta)",
                    "Cython semantics as encoded by the transliterator: 32-bit int with an overflow obligation on every "
                    "C-int store/operation, truncating <int>(double), cdivision"],
    "stubs": ["datetime/timedelta -> integer seconds (module globals of the real functions rebound for the run)",
              "Scoreboard.clear -> symbolic slot table"],
}


def conditions(tier: str, seed: int) -> list[dict]:
    res = QUICK_RES if tier == "quick" else THOROUGH_RES
    n_scan = 6 if tier == "quick" else 9
    cs = []
    for impl in ("py", "cy"):
        for r in res:
            cs.append({"name": f"sb_index[{impl},r={r}]", "bounds": f"L<=2**31, i,j<size, t in [0,L], resolution {r}s", "timeout": 120})
            cs.append({"name": f"sb_outside[{impl},r={r}]", "bounds": f"L<=2**31, |i|<=2**19, t in [-2**31,2**32], resolution {r}s", "timeout": 120})
            cs.append({"name": f"project_index[{impl},g={r}]", "bounds": f"L<=2**31, resolution {r}s", "timeout": 120})
        scan_res = [3600] if tier == "quick" else [60, 900, 3600]
        for r in scan_res:
            cs.append({"name": f"scan[{impl},r={r},n={n_scan}]", "bounds": f"table <= {n_scan} slots, all predicate patterns, window ends in [-r, L+r], min duration <= 4 slots",
                       "timeout": 600 if tier == "quick" else 3000, "weight": 1000})
    return cs


def _parse(name: str) -> tuple[str, dict]:
    kind, rest = name.split("[", 1)
    parts = rest.rstrip("]").split(",")
    d: dict[str, Any] = {"impl": parts[0]}
    for p in parts[1:]:
        k, v = p.split("=")
        d[k] = int(v)
    return kind, d


def _body(kind: str, d: dict, ctx: Any, impl: kern.Impl) -> None:
    if kind == "sb_index":
        kern.body_sb_index(ctx, impl, d["r"])
    elif kind == "sb_outside":
        kern.body_sb_outside(ctx, impl, d["r"])
    elif kind == "project_index":
        kern.body_project_index(ctx, impl, d["g"])
    elif kind == "scan":
        kern.body_scan(ctx, impl, d["r"], d["n"])
    else:
        raise ValueError(kind)


def run_condition(name: str, tier: str, seed: int) -> dict:
    kind, d = _parse(name)
    return run_symbolic(lambda ctx, impl: _body(kind, d, ctx, impl), d["impl"],
                        budget_s=(500 if tier == "quick" else 2800) if kind == "scan" else 100)


def run_symbolic(body: Any, impl_kind: str, budget_s: float = 100, max_paths: int = 500000, solver_timeout_ms: int = 20000) -> dict:
    e = K.Engine(max_paths=max_paths, solver_timeout_ms=solver_timeout_ms)
    impl = kern.Impl(impl_kind, True)
    t0 = time.time()
    deadline = t0 + budget_s
    e.deadline = deadline
    reached = [0]

    def fn(en: K.Engine) -> None:
        if time.time() > deadline:
            raise TimeoutError()
        ctx = kern.SymCtx(en)
        body(ctx, impl)
        reached[0] += 1

    timed_out = False
    try:
        e.explore(fn)
    except TimeoutError:
        timed_out = True
    res: dict[str, Any] = {"paths": e.paths, "nontrivial": e.nontrivial_paths, "queries": e.queries,
                           "solver_s": round(e.solver_s, 3), "checks": e.checks, "checks_unsat": e.checks_unsat,
                           "samples": e.path_samples[:2]}
    if reached[0] == 0 and not e.violations:
        return {**res, "status": R.HARNESS_ERROR, "detail": "vacuous: no path reached the end of the harness body"}
    if e.violations:
        # one counterexample per distinct label
        seen: dict[str, dict] = {}
        for v in e.violations:
            seen.setdefault(v["label"], v)
        return {**res, "status": R.REFUTED, "counterexamples": list(seen.values())[:8],
                "detail": f"{len(e.violations)} violated obligations, {len(seen)} distinct"}
    if e.unknowns:
        return {**res, "status": R.INCONCLUSIVE, "detail": f"{e.unknowns} solver answers 'unknown'"}
    if timed_out or not e.exhausted:
        return {**res, "status": R.EXPLORED, "detail": "budget ended before the path tree was exhausted"}
    if e.bound_exceeded:
        return {**res, "status": R.EXPLORED, "detail": f"{e.bound_exceeded} paths left the stated bounds (unwinding/decision bound)"}
    return {**res, "status": R.DISCHARGED, "detail": "path tree exhausted, every obligation unsat"}


_FRESH: list[str] = []


def fresh_dir() -> str:
    if not _FRESH:
        from vlib import cybuild
        import atexit

        d = cybuild.build()
        _FRESH.append(d)
        atexit.register(lambda: shutil.rmtree(os.path.dirname(d), ignore_errors=True))
    return _FRESH[0]


def replay_body(body: Any, record: dict, impl_kind: str) -> dict:
    inputs = dict(record.get("inputs", {}))
    info = record.get("info")
    if isinstance(info, dict):
        inputs.update({k: v for k, v in info.items() if k in ("pattern",)})
    impl = kern.Impl(impl_kind, False, fresh_dir() if impl_kind == "cy" else None)
    ctx = kern.ConCtx(inputs)
    try:
        body(ctx, impl)
    except kern.EndOfInputs:
        pass
    except kern.Skip as s:
        return {"reproduced": False, "detail": f"inputs outside bounds: {s}"}
    except Exception as ex:  # the real code raised on concrete in-bounds inputs
        return {"reproduced": True, "detail": f"real code raised {type(ex).__name__}: {ex}", "failures": [f"exception {type(ex).__name__}"]}
    label = record.get("label", "")
    if label.startswith("c-overflow"):
        # a C-int overflow obligation: reproduce as a py/cy divergence on the same inputs
        ctx2 = kern.ConCtx(inputs)
        try:
            body(ctx2, kern.Impl("py", False))
        except kern.EndOfInputs:
            pass
        except Exception as ex:
            return {"reproduced": False, "detail": f"py raised {ex!r}"}
        diff = ctx.failures != ctx2.failures
        return {"reproduced": bool(ctx.failures) or diff, "detail": f"cy failures={ctx.failures} py failures={ctx2.failures}",
                "failures": ctx.failures}
    return {"reproduced": bool(ctx.failures), "detail": f"failed: {ctx.failures}" if ctx.failures else f"all {ctx.checked} checks hold natively",
            "failures": ctx.failures}


def replay(record: dict) -> dict:
    kind, d = _parse(record["condition"])
    return replay_body(lambda ctx, impl: _body(kind, d, ctx, impl), record, d["impl"])


def known_match(k: dict, record: dict) -> bool:
    m = k.get("match", {})
    if "condition_prefix" in m and not record.get("condition", "").startswith(m["condition_prefix"]):
        return False
    if "label_contains" in m and m["label_contains"] not in record.get("label", ""):
        return False
    return True
