"""Harness bodies for the slot/time kernels (C17, C13), written once against a small context
interface so that the *same body* is (a) executed symbolically by ksym on the real function
objects and (b) executed natively with real datetimes to replay a counterexample.
"""
from __future__ import annotations

import os
from datetime import datetime, timedelta
from typing import Any, Optional

import z3

from ksym import crt, pyx2py
from ksym import engine as K

REPO = os.environ.get("VERIF_REPO", "/repo")
BASE = datetime(2025, 1, 6)  # a Monday; only differences matter for these kernels


class Skip(Exception):
    """concrete inputs outside the stated bounds"""


class EndOfInputs(Exception):
    """the counterexample was found before this variable was introduced: stop the body here"""


# ---- contexts --------------------------------------------------------------------------

class SymCtx:
    symbolic = True

    def __init__(self, e: K.Engine):
        self.e = e
        self.info: Any = None

    def var(self, name: str, lo: Optional[int] = None, hi: Optional[int] = None) -> Any:
        return self.e.int_var(name, lo, hi)

    def bvar(self, name: str) -> Any:
        return self.e.bool_var(name)

    def time(self, off: Any) -> Any:
        return K.MTime(off)

    def off(self, t: Any) -> Any:
        return t.off

    def assume(self, cond: Any) -> None:
        if isinstance(cond, bool):
            if not cond:
                raise K.Infeasible()
            return
        self.e.assume(cond)
        if self.e._check() == "unsat":
            raise K.Infeasible()

    def check(self, cond: Any, label: str) -> None:
        self.e.check(cond, label, self.info)

    def fail(self, label: str) -> None:
        self.e.check(False, label, self.info)


class ConCtx:
    symbolic = False

    def __init__(self, inputs: dict[str, Any]):
        self.inputs = inputs
        self.failures: list[str] = []
        self.checked = 0

    def var(self, name: str, lo: Optional[int] = None, hi: Optional[int] = None) -> Any:
        if name not in self.inputs:
            raise EndOfInputs(name)
        v = self.inputs[name]
        if (lo is not None and v < lo) or (hi is not None and v > hi):
            raise Skip(f"{name}={v} outside [{lo},{hi}]")
        return v

    def bvar(self, name: str) -> Any:
        return bool(self.inputs.get(name, False))

    def time(self, off: Any) -> Any:
        return BASE + timedelta(seconds=off)

    def off(self, t: Any) -> Any:
        return int((t - BASE).total_seconds())

    def assume(self, cond: Any) -> None:
        if not cond:
            raise Skip("assumption false")

    def check(self, cond: Any, label: str) -> None:
        self.checked += 1
        if not cond:
            self.failures.append(label)

    def fail(self, label: str) -> None:
        self.checked += 1
        self.failures.append(label)


# ---- implementations under test ---------------------------------------------------------

_TRANSLIT_CACHE: dict[str, tuple[str, dict]] = {}


def translit(name: str) -> tuple[str, dict]:
    if name not in _TRANSLIT_CACHE:
        with open(os.path.join(REPO, "scriptplan", "_cython", name + ".pyx")) as f:
            _TRANSLIT_CACHE[name] = pyx2py.transliterate(f.read(), name)
    return _TRANSLIT_CACHE[name]


def klen(x: Any) -> Any:
    if isinstance(x, SymList):
        return x.n
    return len(x)


class SlotVal:
    __slots__ = ("idx",)

    def __init__(self, idx: Any):
        self.idx = idx


class SymList:
    """the slot table: indexable with symbolic indices; the value at idx is an opaque SlotVal(idx)"""

    def __init__(self, n: Any):
        self.n = n

    def __getitem__(self, idx: Any) -> Any:
        return SlotVal(idx)

    def __len__(self) -> int:
        raise TypeError("len() of a symbolic slot table (use the rebound len)")


def sym_translit_module(name: str) -> dict[str, Any]:
    src, _info = translit(name)
    return pyx2py.load_module(src, crt.SymbolicRT(), {"timedelta": K.mtimedelta, "len": klen})


def con_translit_module(name: str, rt: Optional[crt.ConcreteRT] = None) -> dict[str, Any]:
    src, _info = translit(name)
    return pyx2py.load_module(src, rt or crt.ConcreteRT(), {"timedelta": timedelta})


class Impl:
    """how to run the functions: 'py' (pure-Python body), 'cy' (Cython body: transliteration when symbolic,
    freshly built extension when concrete)"""

    def __init__(self, kind: str, symbolic: bool, fresh_dir: Optional[str] = None):
        self.kind = kind
        self.symbolic = symbolic
        self.fresh_dir = fresh_dir

    def patches(self, modname: str) -> dict[str, Any]:
        d: dict[str, Any] = {}
        if self.symbolic:
            d.update(timedelta=K.mtimedelta, int=K.kint, float=K.kfloat, len=klen, math=K.kmath, cast=lambda t, v: v,
                     min=K.kmin, max=K.kmax)
        if self.kind == "py":
            d["_USE_CYTHON"] = False
            return d
        d["_USE_CYTHON"] = True
        if modname == "scoreboard":
            names, pyx = ["collect_intervals_fast", "date_to_idx_fast", "idx_to_date_fast"], "scoreboard_cy"
        elif modname == "project":
            names, pyx = ["project_date_to_idx", "project_idx_to_date"], "time_utils_cy"
        elif modname == "working_hours":
            names, pyx = ["calculate_daily_hours", "check_working_hours_fast"], "working_hours_cy"
        else:
            raise ValueError(modname)
        if self.symbolic:
            g = sym_translit_module(pyx)
            for n in names:
                d[n] = g[n]
        else:
            from vlib import cybuild

            assert self.fresh_dir, "concrete cy runs need a fresh build"
            m = cybuild.load(self.fresh_dir, pyx)
            for n in names:
                d[n] = getattr(m, n)
        return d


def sb_module() -> Any:
    import scriptplan.scheduler.scoreboard as m

    return m


def project_module() -> Any:
    import scriptplan.core.project as m

    return m


def wh_module() -> Any:
    import scriptplan.core.working_hours as m

    return m


def make_scoreboard(ctx: Any, start: Any, end: Any, r: int) -> Any:
    """runs the REAL Scoreboard.__init__; only the list allocation is replaced when symbolic"""
    m = sb_module()
    if ctx.symbolic:
        class KSB(m.Scoreboard):  # type: ignore[misc,name-defined]
            def clear(self, init_val: Any = None) -> None:
                self.sb = SymList(self.size)  # type: ignore[assignment]

        return KSB(start, end, r, 2)
    return m.Scoreboard(start, end, r, 2)


def ceil_div(a: Any, b: int) -> Any:
    return (a + (b - 1)) // b


# ---- C17 bodies -----------------------------------------------------------------------

W31 = 2**31


def body_sb_index(ctx: Any, impl: Impl, r: int, maxlen: int = W31) -> None:
    """Scoreboard.__init__/idxToDate/dateToIdx: size, monotonicity, round trip, floor inverse"""
    with K.patched_globals(sb_module(), **impl.patches("scoreboard")):
        s0 = ctx.var("s0", 0, r - 1)  # start offset within a slot (irrelevant in integer time, kept for replay)
        L = ctx.var("L", 0, maxlen)
        start, end = ctx.time(s0), ctx.time(s0 + L)
        sb = make_scoreboard(ctx, start, end, r)
        size = sb.size
        ctx.check(size == ceil_div(L, r) + 1, "size == ceil((end-start)/r)+1")
        i = ctx.var("i", 0, W31 - 1)
        ctx.assume(i < size)
        try:
            di = sb.idxToDate(i)
            ctx.check(ctx.off(di) == s0 + i * r, "idxToDate(i) == start + i*r")
            last = sb.idxToDate(size - 1)
            ctx.check(last >= end, "idxToDate(size-1) >= end (table covers [start,end])")
            k = sb.dateToIdx(di)
            ctx.check(k == i, "dateToIdx(idxToDate(i)) == i")
            k2 = sb.dateToIdx(di, False)
            ctx.check(k2 == i, "dateToIdx(idxToDate(i), force=False) == i")
            j = ctx.var("j", 0, W31 - 1)
            ctx.assume(j < size)
            ctx.assume(i < j)
            dj = sb.idxToDate(j)
            ctx.check(di < dj, "idxToDate strictly increasing")
        except IndexError:
            ctx.fail("IndexError for an index inside [0,size)")
        t = ctx.var("t", 0, W31)
        ctx.assume(t <= L)
        try:
            k = sb.dateToIdx(ctx.time(s0 + t), False)
            ctx.check((k >= 0) & (k < size), "dateToIdx(t) in [0,size) for t in [start,end]")
            ctx.check((k * r <= t) & (t < (k + 1) * r), "idxToDate(k) <= t < idxToDate(k+1) for k = dateToIdx(t)")
            k3 = sb.dateToIdx(ctx.time(s0 + t))
            ctx.check(k3 == k, "clamping does not change an index of the window")
        except IndexError:
            ctx.fail("IndexError for an instant inside [start,end]")


def body_sb_outside(ctx: Any, impl: Impl, r: int, maxlen: int = W31) -> None:
    """indices / instants outside the table are rejected unless clamping is requested"""
    with K.patched_globals(sb_module(), **impl.patches("scoreboard")):
        L = ctx.var("L", 0, maxlen)
        start, end = ctx.time(0), ctx.time(L)
        sb = make_scoreboard(ctx, start, end, r)
        size = sb.size
        i = ctx.var("i", -W31 // 4096, W31 // 4096)  # i*r must stay inside the datetime range on replay
        inside = (i >= 0) & (i < size)
        raised = False
        try:
            d = sb.idxToDate(i)
        except IndexError:
            raised = True
        if raised:
            ctx.check(~inside if ctx.symbolic else not inside, "idxToDate raises IndexError only outside [0,size)")
        else:
            ctx.check(inside, "idxToDate(i) without clamping rejects i outside [0,size)")
        d = sb.idxToDate(i, True)
        if ctx.symbolic:
            exp = K.SInt(z3.If(i.t < 0, 0, z3.If(i.t >= size.t, L.t, i.t * r)))
        else:
            exp = 0 if i < 0 else (L if i >= size else i * r)
        ctx.check(ctx.off(d) == exp, "idxToDate(i, clamp) == start / end / start+i*r")
        t = ctx.var("t", -W31, 2 * W31)
        raised = False
        try:
            k = sb.dateToIdx(ctx.time(t), False)
        except IndexError:
            raised = True
        if not raised:
            ctx.check((k >= 0) & (k < size), "dateToIdx(t, force=False) returns only indices inside [0,size)")
            ctx.check((t < 0) | ((k * r <= t) & (t < (k + 1) * r)), "dateToIdx(t, force=False) is the floor for t >= start")
        else:
            ctx.check((t < 0) | (t >= size * r), "dateToIdx(t, force=False) raises only for instants outside the table")
        k = sb.dateToIdx(ctx.time(t), True)
        ctx.check((k >= 0) & (k < size), "dateToIdx(t, clamp) in [0,size)")


class _ProjStub:
    def __init__(self, start: Any, end: Any, g: int):
        self.attributes = {"start": start, "end": end, "scheduleGranularity": g}
        self.scoreboard = None


def body_project_index(ctx: Any, impl: Impl, g: int, maxlen: int = W31) -> None:
    """Project.dateToIdx / idxToDate / scoreboardSize (the scheduler's own pair)"""
    pm = project_module()
    with K.patched_globals(pm, **impl.patches("project")):
        P = pm.Project
        s0 = ctx.var("s0", 0, g - 1)
        L = ctx.var("L", 0, maxlen)
        st = _ProjStub(ctx.time(s0), ctx.time(s0 + L), g)
        size = P.scoreboardSize(st)
        i = ctx.var("i", 0, W31 - 1)
        ctx.assume(i < size)
        di = P.idxToDate(st, i)
        ctx.check(ctx.off(di) == s0 + i * g, "Project.idxToDate(i) == start + i*g")
        ctx.check(P.dateToIdx(st, di) == i, "Project.dateToIdx(idxToDate(i)) == i")
        j = ctx.var("j", 0, W31 - 1)
        ctx.assume(j < size)
        ctx.assume(i < j)
        ctx.check(di < P.idxToDate(st, j), "Project.idxToDate strictly increasing")
        t = ctx.var("t", 0, W31)
        ctx.assume(t <= L)
        k = P.dateToIdx(st, ctx.time(s0 + t))
        ctx.check((k >= 0) & (k < size), "Project.dateToIdx(t) in [0, scoreboardSize) for t in [start,end]")
        ctx.check((k * g <= t) & (t < (k + 1) * g), "Project.dateToIdx is the floor inverse of idxToDate")


# ---- interval scan ---------------------------------------------------------------------

def body_scan(ctx: Any, impl: Impl, r: int, nmax: int) -> None:
    """Scoreboard.collectIntervals == maximal runs of length >= minimum, clipped to the window"""
    from scriptplan.utils.time import TimeInterval

    with K.patched_globals(sb_module(), **impl.patches("scoreboard")):
        L = ctx.var("L", 0, (nmax - 1) * r)
        sb = make_scoreboard(ctx, ctx.time(0), ctx.time(L), r)
        if ctx.symbolic:
            n = K.concretize_small(sb.size, 1, nmax, "scoreboard size")
            P = z3.Function("P", z3.IntSort(), z3.BoolSort())

            def pred(v: Any) -> Any:
                if not isinstance(v, SlotVal):
                    return False
                it = K._it(v.idx)
                return K.SBool(z3.And(it >= 0, it < n, P(it)))
        else:
            n = sb.size
            if n > nmax:
                raise Skip("size beyond bound")
            pat = ctx.inputs["pattern"]
            sb.sb = [bool(pat[k]) if k < len(pat) else False for k in range(n)]

            def pred(v: Any) -> Any:
                return v is True

        a = ctx.var("a", -r, L + r)
        b = ctx.var("b", -r, L + r)
        ctx.assume(a <= b)
        m_s = ctx.var("mind", 0, 4 * r)
        got = sb.collectIntervals(TimeInterval(ctx.time(a), ctx.time(b)), m_s, pred)
        got_off = [(ctx.off(iv.start), ctx.off(iv.end)) for iv in got]
        if ctx.symbolic:
            _scan_spec_symbolic(ctx, P, n, r, a, b, m_s, got_off)
        else:
            exp = scan_reference(sb.sb, n, r, a, b, m_s)
            g2 = [(s, e) for (s, e) in got_off if s < e]
            ctx.check(g2 == exp, f"collectIntervals == reference runs: got {g2} expected {exp}")


def _clampidx(x: int, n: int) -> int:
    return 0 if x < 0 else (n - 1 if x >= n else x)


def scan_reference(sb: list, n: int, r: int, a: int, b: int, mind: int) -> list[tuple[int, int]]:
    """plain reference: maximal runs of True in the table [0, n-1) (slot n-1 is the closing sentinel slot),
    of length >= m slots, intersected with the window [sIdx, eIdx); empty intersections dropped"""
    s_idx = _clampidx(int(a / r), n)
    e_idx = _clampidx(int(b / r), n)
    m = int(mind / r)
    if m <= 0:
        m = 1
    out = []
    k = 0
    while k < n - 1:
        if sb[k] is True:
            j = k
            while j < n - 1 and sb[j] is True:
                j += 1
            if j - k >= m:
                cs, ce = max(k, s_idx), min(j, e_idx)
                if cs < ce:
                    out.append((cs * r, ce * r))
            k = j
        else:
            k += 1
    return out


def _scan_spec_symbolic(ctx: Any, P: Any, n: int, r: int, a: Any, b: Any, m_s: Any, got: list) -> None:
    e = ctx.e

    def tdiv(x: Any) -> Any:  # truncation toward zero of x / r
        return z3.If(x >= 0, x / r, -((-x) / r))

    def clamp(x: Any) -> Any:
        return z3.If(x < 0, 0, z3.If(x >= n, n - 1, x))

    s_idx, e_idx = clamp(tdiv(a.t)), clamp(tdiv(b.t))
    m0 = tdiv(m_s.t)
    m = z3.If(m0 <= 0, 1, m0)
    runs = []
    for a1 in range(0, n - 1):
        for b1 in range(a1 + 1, n):
            if b1 > n - 1:
                continue
            isrun = z3.And(*[P(k) for k in range(a1, b1)],
                           z3.BoolVal(True) if a1 == 0 else z3.Not(P(a1 - 1)),
                           z3.BoolVal(True) if b1 == n - 1 else z3.Not(P(b1)),
                           b1 - a1 >= m)
            cs = z3.If(s_idx > a1, s_idx, a1)
            ce = z3.If(e_idx < b1, e_idx, b1)
            runs.append((z3.And(isrun, cs < ce), cs * r, ce * r))
    G = [(K._it(s), K._it(en)) for s, en in got]
    conj = []
    for (s, en) in G:
        nonempty = s < en
        conj.append(z3.Implies(nonempty, z3.Or(*[z3.And(c, s == cs, en == ce) for c, cs, ce in runs]) if runs else z3.BoolVal(False)))
    for c, cs, ce in runs:
        conj.append(z3.Implies(c, z3.Or(*[z3.And(s == cs, en == ce) for s, en in G]) if G else z3.BoolVal(False)))
    ne = [(s, en) for s, en in G]
    for x in range(len(ne) - 1):
        conj.append(z3.Implies(z3.And(ne[x][0] < ne[x][1], ne[x + 1][0] < ne[x + 1][1]), ne[x][1] <= ne[x + 1][0]))
    for x in range(len(ne)):
        for y in range(x + 1, len(ne)):
            conj.append(z3.Implies(z3.And(ne[x][0] < ne[x][1], ne[y][0] < ne[y][1]), ne[x][0] < ne[y][0]))

    def info(mdl: z3.ModelRef) -> dict:
        return {"pattern": [bool(z3.is_true(mdl.eval(P(k), model_completion=True))) for k in range(n)],
                "got": [(K._mval(mdl, s), K._mval(mdl, en)) for s, en in G], "n": n}

    e.check(z3.And(*conj) if conj else z3.BoolVal(True),
            "collectIntervals == maximal runs >= minimum length, clipped to the window, in order", info)


# ---- C13 differential bodies (py fallback vs Cython body, same inputs, same path) ----------

def _call(fn: Any) -> tuple[str, Any]:
    try:
        return ("ok", fn())
    except IndexError:
        return ("IndexError", None)
    except OverflowError:
        return ("OverflowError", None)


def _same(ctx: Any, a: tuple[str, Any], b: tuple[str, Any], label: str, conv: Any = None) -> None:
    if a[0] != b[0]:
        ctx.fail(f"{label}: py -> {a[0]}, cy -> {b[0]}")
        return
    if a[0] == "ok":
        x, y = a[1], b[1]
        if conv is not None:
            x, y = conv(x), conv(y)
        ctx.check(x == y, f"{label}: same value")


def body_diff_sb(ctx: Any, py: Impl, cy: Impl, r: int, maxlen: int = W31) -> None:
    """Scoreboard.idxToDate / dateToIdx through the wrapper with _USE_CYTHON False vs True"""
    m = sb_module()
    L = ctx.var("L", 0, maxlen)
    start, end = ctx.time(0), ctx.time(L)
    with K.patched_globals(m, **py.patches("scoreboard")):
        sb = make_scoreboard(ctx, start, end, r)
    i = ctx.var("i", -W31 // 4096, W31 // r + 2)
    t = ctx.var("t", -W31, 2 * W31)
    for force in (False, True):
        with K.patched_globals(m, **py.patches("scoreboard")):
            a1 = _call(lambda: sb.idxToDate(i, force))
            a2 = _call(lambda: sb.dateToIdx(ctx.time(t), force))
        with K.patched_globals(m, **cy.patches("scoreboard")):
            b1 = _call(lambda: sb.idxToDate(i, force))
            b2 = _call(lambda: sb.dateToIdx(ctx.time(t), force))
        _same(ctx, a1, b1, f"idxToDate(i, force={force})", ctx.off)
        _same(ctx, a2, b2, f"dateToIdx(t, force={force})")


def body_diff_project(ctx: Any, py: Impl, cy: Impl, g: int) -> None:
    pm = project_module()
    P = pm.Project
    st = _ProjStub(ctx.time(0), ctx.time(86400), g)
    i = ctx.var("i", -W31 // 4096, W31 // g + 1024)
    t = ctx.var("t", -W31, 2 * W31)
    with K.patched_globals(pm, **py.patches("project")):
        a1 = _call(lambda: P.idxToDate(st, i))
        a2 = _call(lambda: P.dateToIdx(st, ctx.time(t)))
    with K.patched_globals(pm, **cy.patches("project")):
        b1 = _call(lambda: P.idxToDate(st, i))
        b2 = _call(lambda: P.dateToIdx(st, ctx.time(t)))
    _same(ctx, a1, b1, "Project.idxToDate(i)", ctx.off)
    _same(ctx, a2, b2, "Project.dateToIdx(t)")


class KDict:
    """dict with symbolic-integer keys: membership / lookup fork over the (small) key range"""

    def __init__(self, d: dict, lo: int, hi: int):
        self.d, self.lo, self.hi = d, lo, hi

    def _k(self, k: Any) -> int:
        return K.concretize_small(k, self.lo, self.hi, "dict key") if isinstance(k, K.SInt) else k

    def __contains__(self, k: Any) -> bool:
        return self._k(k) in self.d

    def __getitem__(self, k: Any) -> Any:
        return self.d[self._k(k)]

    def get(self, k: Any, default: Any = None) -> Any:
        return self.d.get(self._k(k), default)


class _FakeDT:
    def __init__(self, wd: Any, h: Any, mi: Any):
        self._wd, self.hour, self.minute = wd, h, mi

    def weekday(self) -> Any:
        return self._wd


class _WHProj:
    def __init__(self, dt: Any):
        self._dt = dt

    def idxToDate(self, idx: Any) -> Any:
        return self._dt

    def isWorkingTime(self, idx: Any) -> bool:
        raise K.HarnessError("fallback calendar must not be reached with custom hours")


def make_hours(ctx: Any, nint: int) -> tuple[Any, list]:
    """up to `nint` intervals on each of two symbolic weekdays; returns (_hours mapping, description)"""
    d1 = ctx.var("d1", 0, 6)
    d2 = ctx.var("d2", 0, 6)
    if ctx.symbolic:
        d1 = K.concretize_small(d1, 0, 6)
        d2 = K.concretize_small(d2, 0, 6)
    hours: dict[int, list] = {}
    desc = []
    for dn, d in (("a", d1), ("b", d2)):
        for k in range(nint):
            use = ctx.var(f"use_{dn}{k}", 0, 1)
            if ctx.symbolic:
                use = K.concretize_small(use, 0, 1)
            if not use:
                continue
            sh, sm = ctx.var(f"sh_{dn}{k}", 0, 23), ctx.var(f"sm_{dn}{k}", 0, 59)
            eh, em = ctx.var(f"eh_{dn}{k}", 0, 24), ctx.var(f"em_{dn}{k}", 0, 59)
            hours.setdefault(d, []).append(((sh, sm), (eh, em)))
            desc.append((d, sh, sm, eh, em))
    return (KDict(hours, -2, 8) if ctx.symbolic else hours), desc


def body_diff_wh(ctx: Any, py: Impl, cy: Impl, nint: int) -> None:
    """WorkingHours.onShift with _USE_CYTHON False vs True"""
    wm = wh_module()
    wd, h, mi = ctx.var("weekday", 0, 6), ctx.var("hour", 0, 23), ctx.var("minute", 0, 59)
    wh = wm.WorkingHours(_WHProj(_FakeDT(wd, h, mi)))
    wh._hours, _ = make_hours(ctx, nint)
    wh._custom_hours_set = True
    with K.patched_globals(wm, **py.patches("working_hours")):
        a = _call(lambda: wh.onShift(0))
    with K.patched_globals(wm, **cy.patches("working_hours")):
        b = _call(lambda: wh.onShift(0))
    if ctx.symbolic:
        conv = K.kbool
    else:
        conv = bool
    _same(ctx, a, b, "WorkingHours.onShift", conv)


def body_diff_scan(ctx: Any, py: Impl, cy: Impl, r: int, nmax: int) -> None:
    from scriptplan.utils.time import TimeInterval

    m = sb_module()
    L = ctx.var("L", 0, (nmax - 1) * r)
    with K.patched_globals(m, **py.patches("scoreboard")):
        sb = make_scoreboard(ctx, ctx.time(0), ctx.time(L), r)
    if ctx.symbolic:
        n = K.concretize_small(sb.size, 1, nmax, "scoreboard size")
        P = z3.Function("P", z3.IntSort(), z3.BoolSort())

        def pred(v: Any) -> Any:
            if not isinstance(v, SlotVal):
                return False
            it = K._it(v.idx)
            return K.SBool(z3.And(it >= 0, it < n, P(it)))

        ctx.info = lambda mdl: {"pattern": [bool(z3.is_true(mdl.eval(P(k), model_completion=True))) for k in range(n)]}
    else:
        n = sb.size
        pat = ctx.inputs.get("pattern", [])
        sb.sb = [bool(pat[k]) if k < len(pat) else False for k in range(n)]

        def pred(v: Any) -> Any:
            return v is True
    a = ctx.var("a", -r, L + r)
    b = ctx.var("b", -r, L + r)
    ctx.assume(a <= b)
    m_s = ctx.var("mind", 0, 4 * r)
    with K.patched_globals(m, **py.patches("scoreboard")):
        g1 = sb.collectIntervals(TimeInterval(ctx.time(a), ctx.time(b)), m_s, pred)
    with K.patched_globals(m, **cy.patches("scoreboard")):
        g2 = sb.collectIntervals(TimeInterval(ctx.time(a), ctx.time(b)), m_s, pred)
    if len(g1) != len(g2):
        ctx.fail(f"collectIntervals: py returns {len(g1)} intervals, cy {len(g2)}")
        return
    for x, y in zip(g1, g2):
        ctx.check((ctx.off(x.start) == ctx.off(y.start)) & (ctx.off(x.end) == ctx.off(y.end)), "collectIntervals: same intervals")


def body_diff_daily_hours(ctx: Any, py: Impl, cy: Impl, nint: int) -> None:
    """WorkingHours.get_daily_hours: C returns a 32-bit float, Python a double - decided bit-precisely (z3 FP)"""
    wm = wh_module()
    wh = wm.WorkingHours(_WHProj(None))
    ivs = []
    for k in range(nint):
        sh, sm = ctx.var(f"sh{k}", 0, 23), ctx.var(f"sm{k}", 0, 59)
        eh, em = ctx.var(f"eh{k}", 0, 24), ctx.var(f"em{k}", 0, 59)
        ivs.append(((sh, sm), (eh, em)))
    wh._hours = {0: ivs}
    if ctx.symbolic:
        ctx.e.fp_precise = True
    pp, cp = py.patches("working_hours"), cy.patches("working_hours")
    if ctx.symbolic:
        from ksym.fp import kfloat_fp

        pp["float"] = kfloat_fp
        cp["float"] = kfloat_fp
    with K.patched_globals(wm, **pp):
        a = wh.get_daily_hours(0)
    with K.patched_globals(wm, **cp):
        b = wh.get_daily_hours(0)
    ctx.check(a == b, "get_daily_hours: same value (C float vs Python double)")


# ---- C02 K1: interval kernel vs the declarative calendar -----------------------------------------

def body_wh_spec(ctx: Any, impl: Impl, nint: int) -> None:
    """WorkingHours.onShift == declarative calendar: an interval declared on day d covers [d*1440+s, d*1440+e) if e > s,
    else [d*1440+s, (d+1)*1440+e) (a cross-midnight interval belongs to the day on which it starts), modulo the week"""
    wm = wh_module()
    wd, h, mi = ctx.var("weekday", 0, 6), ctx.var("hour", 0, 23), ctx.var("minute", 0, 59)
    wh = wm.WorkingHours(_WHProj(_FakeDT(wd, h, mi)))
    wh._hours, desc = make_hours(ctx, nint)
    wh._custom_hours_set = True
    with K.patched_globals(wm, **impl.patches("working_hours")):
        got = wh.onShift(0)
    now = wd * 1440 + h * 60 + mi
    exp: Any = False
    for (d, sh, sm, eh, em) in desc:
        s, e = sh * 60 + sm, eh * 60 + em
        if ctx.symbolic:
            a = d * 1440 + s
            b = K.SInt(z3.If((e > s).t if isinstance(e > s, K.SBool) else z3.BoolVal(bool(e > s)), K._it(d * 1440 + e), K._it((d + 1) * 1440 + e)))
            cov = ((a <= now) & (now < b)) | ((a <= now + 10080) & (now + 10080 < b))
            exp = cov if exp is False else (exp | cov)
        else:
            a = d * 1440 + s
            b = d * 1440 + e if e > s else (d + 1) * 1440 + e
            exp = exp or (a <= now < b) or (a <= now + 10080 < b)
    if ctx.symbolic:
        g = K.kbool(got)
        g = g if isinstance(g, K.SBool) else K.SBool(z3.BoolVal(bool(g)))
        e_ = exp if isinstance(exp, K.SBool) else K.SBool(z3.BoolVal(bool(exp)))
        # C02 is one-directional: nothing outside the declared hours may count as working time.  (The converse fails on
        # the unchanged tree for the tail of a cross-midnight shift running into a day without hours of its own - the
        # Python wrapper returns False early; that loses working time but books nothing outside it.)
        ctx.check(~g | e_, "WorkingHours.onShift => inside a declared interval (cross-midnight belongs to the day it starts on)")
    else:
        ctx.check((not bool(got)) or bool(exp), f"WorkingHours.onShift => inside a declared interval: got {bool(got)} expected {bool(exp)}")
