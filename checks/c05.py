"""C05 - daily and weekly limits are never exceeded (Engine A whole-run cells; period-index kernel in checks/c05 L1)."""
from datetime import datetime

from sx import oracle as O

from . import sxlib
from sx.spec import Dep, P, Res, Task
from .sxlib import H, S6, ranges_e

PROPERTY = "C05"


def cells(tier: str) -> dict:
    out = {}

    def add(name, spec_f, lo, hi, pre=None):
        def f():
            s = spec_f()
            return s, ranges_e(s, lo, hi), pre
        out[name] = f

    for kind in ("dres", "wres", "dgroup", "dtask", "dparent"):
        add(f"S6[{kind}]", lambda kind=kind: S6(kind, limit="2h" if kind[0] == "d" else "5h"), H, 6 * H)
    # narrow variants around the limit boundary (each task needs between one and two periods): small path trees
    for kind in ("dres", "dgroup", "dtask", "dparent"):
        add(f"S6[{kind},narrow]", lambda kind=kind: S6(kind, limit="2h"), H + 1800, 2 * H + 1800)
    add("S6[wres,narrow]", lambda: S6("wres", limit="5h"), 4 * H, 6 * H)
    # limits that are not a whole number of slots (3.5 h with 1 h slots, 0.75 h with 30 min slots, 10.6 h per week on a group)
    add("S6[dres,3.5h]", lambda: S6("dres", limit="3.5h"), 4 * H, 9 * H)
    add("S6[wgroup,10.6h]", lambda: S6("wgroup", limit="10.6h"), 8 * H, 14 * H)
    # the limited resource starts inside a slot (dependency on a task of ANOTHER resource that ends mid-slot): the partly used slot counts
    def cross():
        sp = S6("dres", limit="2h", n=1)
        sp.resources.append(Res("q"))
        sp.tasks.insert(0, Task("pre", effort=P("e9"), alloc=["q"]))
        sp.tasks[1].deps = [Dep("pre")]
        return sp
    def cross_f():
        return cross(), {"e9": (600, 3000), "e0": (2 * H, 3 * H)}, None
    out["S6[dres,cross-offset]"] = cross_f
    # a limit written in minutes
    add("S6[dres,120min]", lambda: S6("dres", limit="120min"), H + 1800, 2 * H + 1800)
    add("S6[wres,300min]", lambda: S6("wres", limit="300min"), 4 * H, 6 * H)

    def half():
        s = S6("dres", limit="0.75h")
        s.resolution = 1800
        return s
    add("S6[dres,0.75h,30min]", half, 1800, 3 * H)
    # work that overruns the declared project end: the horizon is extended by the scheduler
    add("S6[dres,overrun]", lambda: S6("dres", length="1w", limit="2h"), 10 * H, 14 * H)
    add("S6[wres,overrun]", lambda: S6("wres", length="1w", limit="5h"), 6 * H, 9 * H)
    # calendar positions: start late in the week, across a year end, in a 53-week ISO year
    starts = [("fri", datetime(2025, 1, 10)), ("sun", datetime(2025, 1, 12)), ("yearend", datetime(2025, 12, 29)), ("w53", datetime(2026, 12, 28))]
    if tier != "quick":
        starts += [("sat", datetime(2025, 1, 11)), ("dec31", datetime(2025, 12, 31)), ("leap", datetime(2028, 2, 28))]
    for nm, st in starts:
        add(f"S6[wres,{nm}]", lambda st=st: S6("wres", start=st, length="3w", limit="5h"), 4 * H, 9 * H)
        add(f"S6[dres,{nm}]", lambda st=st: S6("dres", start=st, length="1w", limit="2h"), 2 * H, 7 * H)
    # a window that touches one more ISO week than its length in weeks suggests (starts on a Friday, 24 days)
    add("S6[wres,fri25d,alap]", lambda: S6("wres", start=datetime(2025, 1, 10), length="25d", limit="5h", alap=True), 3 * H, 6 * H)
    add("S6[dres,noon]", lambda: S6("dres", start=datetime(2025, 1, 6), length="1w", limit="2h"), 2 * H, 5 * H)
    add("S6[wres,alap]", lambda: S6("wres", start=datetime(2025, 1, 10), length="3w", limit="5h", alap=True), 4 * H, 9 * H)
    add("S6[dres,alap]", lambda: S6("dres", length="2w", limit="2h", alap=True), 2 * H, 6 * H)
    return out


_chk = sxlib.SxCheck("C05", [O.limits_respected], cells)
META = dict(sxlib.SX_META, functions=["Limit._idx_to_sb_idx/ok/inc", "Limits.ok/inc", "ResourceScenario.available/book", "TaskScenario.limitsOk/incLimits/getAllLimits",
                                      "Project._extendProjectEndIfNeeded"],
            bounds="dailymax/weeklymax on a resource, a resource group, a task and a parent task; 2 tasks with efforts 1..14 h as symbolic seconds; "
                   "project starts Mon/Fri/Sat/Sun, at a year end, in ISO week 53; declared length 1-3 weeks incl. work overrunning the declared end; ASAP and ALAP")
conditions, run_condition, replay, known_match = _chk.conditions, _chk.run_condition, _chk.replay, sxlib.known_match
