"""C16 - scenarios are scheduled independently (Engine A, relational: multi-scenario project vs its single-scenario projections)."""
import copy

from sx.run import RelCell, same_dates
from sx.spec import Dep, P, Res, Spec, Task

from . import sxlib
from .sxlib import DAY0, H

PROPERTY = "C16"

SCEN = {
    2: ('  scenario plan "Plan" {\n    scenario s2 "S2"\n  }', ["plan", "s2"], {"plan": None, "s2": "plan"}),
    3: ('  scenario plan "Plan" {\n    scenario s2 "S2" {\n      scenario s3 "S3"\n    }\n  }', ["plan", "s2", "s3"], {"plan": None, "s2": "plan", "s3": "s2"}),
    4: ('  scenario plan "Plan" {\n    scenario s2 "S2" {\n      scenario s3 "S3"\n    }\n    scenario s4 "S4"\n  }', ["plan", "s2", "s3", "s4"],
        {"plan": None, "s2": "plan", "s3": "s2", "s4": "plan"}),
}


def base(kind: str) -> Spec:
    if kind == "chain":
        tasks = [Task("a", effort=P("e0"), alloc=["r"]), Task("b", effort=P("e1"), alloc=["r"], deps=[Dep("a")]), Task("c", effort=P("e2"), alloc=["r"])]
        return Spec(tasks, [Res("r")], length="4w")
    if kind == "limits":
        tasks = [Task("a", effort=P("e0"), alloc=["r"]), Task("b", effort=P("e1"), alloc=["r"])]
        return Spec(tasks, [Res("r", limits={"dailymax": "2h"})], length="4w")
    # an ALAP task without end date or successor: anchored at the project end, i.e. sensitive to the horizon
    tasks = [Task("a", effort=P("e0"), alloc=["r"]), Task("late", effort=P("e1"), alloc=["r"], scheduling="alap")]
    return Spec(tasks, [Res("r")], length="3w")


def effective(spec: Spec, t: Task, sc: str, field: str):
    """value of a scenario-specific attribute: own override, else the parent scenario's"""
    d = getattr(t, field)
    while sc is not None:
        if sc in d:
            return d[sc]
        sc = spec.scen_parent.get(sc)
    return None


def multi(kind: str, n: int, overrides: dict) -> Spec:
    s = base(kind)
    s.scenarios, s.scen_names, s.scen_parent = SCEN[n][0], list(SCEN[n][1]), dict(SCEN[n][2])
    for tid, (sc, param) in overrides.items():
        s.task(tid).scen_effort[sc] = P(param)
    return s


def projection(m: Spec, sc: str) -> Spec:
    s = copy.deepcopy(m)
    s.scenarios, s.scen_names, s.scen_parent = None, ["plan"], {}
    for t in s.tasks:
        orig = m.task(m.full_id(t))
        e = effective(m, orig, sc, "scen_effort")
        if e is not None:
            t.effort = e
        t.scen_effort = {}
    return s


def cells(tier: str) -> dict:
    out = {}

    def add(name, kind, n, overrides, emax=3 * H, emin=60):
        def f():
            m = multi(kind, n, overrides)
            projs = [projection(m, sc) for sc in m.scen_names]
            rg = {p: (emin, emax) for p in m.params()}
            leaves = [m.full_id(t) for t in m.tasks if m.is_leaf(t)]

            def rel(specs, vals, obs, infos):
                fails = []
                by = obs[0]["by_scenario"]
                for k, sc in enumerate(m.scen_names):
                    fails += same_dates(leaves, by[k], obs[1 + k], f"C16 scenario {sc} of the multi-scenario project vs the same project declared alone")
                return fails
            return RelCell([m] + projs, rg, rel, scenarios=[list(range(len(m.scen_names)))] + [0] * len(projs))
        out[name] = f

    add("chain[2,none]", "chain", 2, {})
    add("chain[2,s2:a]", "chain", 2, {"a": ("s2", "e0s2")})
    add("chain[3,s2:a]", "chain", 3, {"a": ("s2", "e0s2")})
    add("limits[2,s2:b]", "limits", 2, {"b": ("s2", "e1s2")}, emax=5 * H)
    # efforts close to (but below) the point where the horizon estimate would move the project end: the estimate must not
    # depend on how many scenarios are declared
    add("alap[2,none]", "alap", 2, {}, emax=8 * H)
    add("alap[4,none]", "alap", 4, {}, emax=8 * H, emin=7 * H + 1800)
    add("chain[2,s2:a,narrow]", "chain", 2, {"a": ("s2", "e0s2")}, emax=H)
    add("chain[3,s2:a,narrow]", "chain", 3, {"a": ("s2", "e0s2")}, emax=H)
    add("limits[2,s2:b,narrow]", "limits", 2, {"b": ("s2", "e1s2")}, emax=3 * H, emin=2 * H)
    # overrides of the same attribute on two tasks at different levels of the scenario tree: the innermost scenario inherits b's from s2
    add("chain[3,s3:a+s2:b,narrow]", "chain", 3, {"a": ("s3", "e0s3"), "b": ("s2", "e1s2")}, emax=H)
    if tier != "quick":
        add("chain[4,s3:b]", "chain", 4, {"b": ("s3", "e1s3")})
        add("alap[3,s2:late]", "alap", 3, {"late": ("s2", "e1s2")}, emax=8 * H)
    return out


_chk = sxlib.SxCheck("C16", [], cells)
META = dict(sxlib.SX_META, functions=["Project.schedule (scenario loop, emulated step by step)", "Project.prepareScenario/scheduleScenario/finishScenario",
                                      "ResourceScenario.prepareScheduling", "TaskScenario.prepareScheduling", "Project._extendProjectEndIfNeeded"],
            bounds="2-4 scenarios (nested and sibling), <=3 tasks, scenario-specific effort overrides on one task, base and override efforts symbolic "
                   "(60 s .. 3-8 h); chain / dailymax / ALAP-at-project-end projects; every scenario of the multi-scenario project is compared with the "
                   "single-scenario project obtained by projection (an un-overridden scenario takes its parent's values)")
conditions, run_condition, replay, known_match = _chk.conditions, _chk.run_condition, _chk.replay, sxlib.known_match
