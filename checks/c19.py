"""C19 - the `plan` CLI honours its output contract (Engine C: symbolic environment/fault schedules
against a modelled OS; the real body of scriptplan.cli.plan.report is what runs)."""
from __future__ import annotations

import time
from typing import Any

from fsx import harness as H
from fsx import model as M
from ksym import engine as K
from vlib import runner as R

PROPERTY = "C19"
META = {
    "level": "other",
    "explanation": "the real body of scriptplan.cli.plan.report (click callback __wrapped__) and create_auto_report_file run with their "
                   "module globals (open, Path, tempfile, os, shutil, sys, click, logger, secrets, run_scriptplan) rebound to an "
                   "in-memory OS model; every environment decision (channel, input class, format, flags, engine outcome, set and "
                   "glob order of the engine's output files, an injected OSError at the i-th work operation under an at-most-k "
                   "constraint) is a z3 variable explored exhaustively by the ksym decision-tree search (z3 prunes infeasible "
                   "combinations); the contract is judged on every path; counterexamples are replayed against the real `plan` "
                   "entry point in a subprocess with private TMPDIR/cwd (faults injected at the same call ordinals)",
    "functions": ["scriptplan.cli.plan.report", "scriptplan.cli.plan.create_auto_report_file", "scriptplan.cli.plan.validate_tjp_file"],
    "bounds": "input classes {plain, CRLF, missing, directory, empty, blank, invalid UTF-8} x channels {file, stdin, '-'} x {json,csv} x "
              "verbose/quiet x engine {ok, failure} x user-report sets (<=2 user reports, either format) x all glob orders x "
              "<= k injected faults (k=1 quick, k=2 thorough)",
    "assumptions": ["cleanup operations (unlink, rmtree, exists) do not fail", "run_scriptplan is stubbed by its documented contract: "
                    "(True, None) leaving <report name>.<format> files in the output directory, or (False, message); it never raises",
                    "file contents are real bytes, text I/O is CPython's io.TextIOWrapper"],
    "stubs": ["OS model fsx.model (files, dirs, fds, stdout/stderr capture)", "run_scriptplan stub", "secrets.token_hex deterministic per run seed"],
    "rule": "one evaluation = one complete modelled run of `plan report` for one environment/fault assignment (a path of the decision "
            "tree); non-trivial = the run reached the engine or ended on a failure branch; all paths are distinct assignments",
}


def conditions(tier: str, seed: int) -> list[dict]:
    ks = [0, 1] if tier == "quick" else [0, 1, 2]
    cs = [{"name": f"contract[faults={k}]", "bounds": META["bounds"], "timeout": 900 if tier == "quick" else 3400, "weight": 100 + 900 * k} for k in ks]
    cs.append({"name": "channels", "bounds": "file vs stdin vs '-' with identical content, no faults", "timeout": 600})
    return cs


def explore(body: Any, budget_s: float, max_faults: int) -> dict:
    e = K.Engine(max_paths=2_000_000, max_decisions=200)
    t0 = time.time()
    reached = [0]
    nontriv = [0]
    samples: list[Any] = []

    def fn(en: K.Engine) -> None:
        if time.time() - t0 > budget_s:
            raise TimeoutError()
        ch = M.Chooser(en, max_faults=max_faults)
        rec = body(en, ch)
        reached[0] += 1
        if rec and rec.get("nontrivial"):
            nontriv[0] += 1
        if rec and len(samples) < 3 and rec.get("sample"):
            samples.append(rec["sample"])

    timed_out = False
    try:
        e.explore(fn)
    except TimeoutError:
        timed_out = True
    res: dict[str, Any] = {"paths": e.paths, "nontrivial": nontriv[0], "queries": e.queries, "solver_s": round(e.solver_s, 2), "samples": samples}
    if reached[0] == 0 and not e.violations:
        return {**res, "status": R.HARNESS_ERROR, "detail": "vacuous: no run completed"}
    if e.violations:
        seen: dict[str, dict] = {}
        for v in e.violations:
            tr = v["inputs"].get("trace", {})
            sc = v["inputs"].get("scenario", {})
            key = (v["label"].split(" | ")[0], tuple(o.split(":")[0] for o in tr.get("fault_ops", [])), sc.get("cls"), sc.get("channel") == "file", len(sc.get("users", [])))
            seen.setdefault(str(key), v)
        return {**res, "status": R.REFUTED, "counterexamples": list(seen.values())[:40], "detail": f"{len(e.violations)} failing runs, {len(seen)} distinct failure kinds"}
    if timed_out or not e.exhausted or e.bound_exceeded:
        return {**res, "status": R.EXPLORED, "detail": f"not exhausted (timeout={timed_out}, bound_exceeded={e.bound_exceeded})"}
    return {**res, "status": R.DISCHARGED, "detail": "all environment/fault assignments explored"}


def report_failures(en: K.Engine, fails: list[str], scn: dict, ch: M.Chooser) -> None:
    for f in fails:
        kind = f.split(":")[0][:60]
        en.violations.append({"label": f"{kind} | {f}", "inputs": {"scenario": scn, "trace": {k: v for k, v in ch.trace.items()}}})


def body_contract(tier: str) -> Any:
    def body(en: K.Engine, ch: M.Chooser) -> dict:
        scn = H.pick_scenario(ch, tier)
        obs, w, data = H.model_run(ch, scn)
        exp = H.expected(scn, ch.trace.get("faults", []), w.input_ops, w.ambiguous_ops)
        fails = H.judge_c19(scn, obs, exp, data)
        en.checks += 1
        if fails:
            report_failures(en, fails, scn, ch)
        else:
            en.checks_unsat += 1
        return {"nontrivial": hasattr(w, "engine_input") or obs["exit_code"] != 0,
                "sample": {"scenario": scn, "faults": ch.trace.get("fault_ops", []), "exit": obs["exit_code"]}}

    return body


def body_channels(tier: str) -> Any:
    def body(en: K.Engine, ch: M.Chooser) -> dict:
        scn = H.pick_scenario(ch, tier)
        if scn["channel"] != "file" or scn["cls"] in ("missing", "directory"):
            raise K.Infeasible()
        o1, _, _ = H.model_run(ch, scn, "A")
        res = {"nontrivial": True, "sample": {"scenario": scn, "exit": o1["exit_code"]}}
        for other in ("stdin", "stdin-dash"):
            s2 = dict(scn, channel=other)
            o2, _, _ = H.model_run(ch, s2, "B")
            fails = []
            if scn["cls"] in ("plain", "crlf"):
                if o1["exit_code"] != o2["exit_code"]:
                    fails.append(f"channel exit codes differ: file {o1['exit_code']} vs {other} {o2['exit_code']}")
                if "".join(o1["stdout"]) != "".join(o2["stdout"]):
                    fails.append(f"channel outputs differ: stdout via file != stdout via {other} for identical content")
            en.checks += 1
            if fails:
                report_failures(en, fails, s2, ch)
            else:
                en.checks_unsat += 1
        return res

    return body


def run_condition(name: str, tier: str, seed: int) -> dict:
    if name.startswith("contract"):
        k = int(name.split("=")[1].rstrip("]"))
        return explore(body_contract(tier), 850 if tier == "quick" else 3300, k)
    return explore(body_channels(tier), 550, 0)


def replay(record: dict) -> dict:
    """re-run the scenario against the real `plan` entry point (subprocess, private TMPDIR and cwd)"""
    inp = record["inputs"]
    scn, trace = inp["scenario"], inp.get("trace", {})
    rf = H.real_faults_from_trace(trace)
    if rf is None:
        return {"reproduced": False, "detail": "fault position has no real-world realisation in the replay runner (engine/stat/stdout fault)"}
    label = record.get("label", "")
    if label.startswith("channel"):
        o1, d1 = H.real_run(dict(scn, channel="file"))
        o2, d2 = H.real_run(scn)
        diff = o1["exit_code"] != o2["exit_code"] or o1["stdout"] != o2["stdout"]
        return {"reproduced": bool(diff), "detail": f"file: exit {o1['exit_code']} stdout[:160]={o1['stdout'][0][:160]!r} | {scn['channel']}: exit {o2['exit_code']} stdout[:160]={o2['stdout'][0][:160]!r}"}
    obs, data = H.real_run(scn, rf)
    # which real operations were input reads is known from the model trace
    allops = trace.get("all_ops", [])
    input_ops = {i for i, o in enumerate(allops) if o.startswith(("stat:/in/", "stdin-read"))}
    firsts = [i for i, o in enumerate(allops) if o.startswith("open-read:/in/")]
    input_ops |= set(firsts[:1])
    amb = {i for i, o in enumerate(allops) if o.startswith("open-read:") and "/plan_stdin_" in o}
    exp = H.expected(scn, trace.get("faults", []), input_ops, amb)
    attempts = 1
    fails = H.judge_c19(scn, obs, exp, data)
    return {"reproduced": bool(fails), "detail": f"real run: exit {obs['exit_code']}; failures {fails}; stderr tail {obs['stderr'][0][-200:]!r}", "attempts": attempts}


def known_match(k: dict, record: dict) -> bool:
    m = k.get("match", {})
    if "label_prefix" in m and not record.get("label", "").startswith(m["label_prefix"]):
        return False
    return True
