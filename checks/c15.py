"""C15 - equivalent ways of writing a project give the same schedule (partial).

(a) Engine B (ksym): the real ModelBuilder._resolve_task_reference on a task tree whose local ids are symbolic: the symbolic
    object is the EQUALITY PATTERN among identifiers (sibling-unique); every '!'-relative and absolute dotted reference to a
    node must resolve to that node for every pattern (name dependence = some pattern changes the answer).
(b) Engine A (relational): pairs of spellings of one project (depends vs precedes, relative vs absolute reference, shift
    reference vs inline hours, consistently renamed ids) scheduled with shared symbolic efforts must give equal dates.
OUTSIDE: comments, whitespace, macro rewrites - transformations of the text consumed by regexes and the Lark lexer."""
import copy
import time
from typing import Any

import z3

from ksym import engine as K
from sx.run import RelCell, same_dates
from sx.spec import Dep, P, Res, Spec, Task
from vlib import runner as R

from . import c17, kern, sxlib
from .sxlib import H

PROPERTY = "C15"


# ---- (a) reference resolution on symbolic identifiers -------------------------------------------------

class SymId:
    """a task id known only up to equality"""

    def __init__(self, t: Any):
        self.t = t

    def __eq__(self, o: Any) -> Any:  # type: ignore[override]
        return K.SBool(self.t == o.t) if isinstance(o, SymId) else False

    def __ne__(self, o: Any) -> Any:  # type: ignore[override]
        return K.SBool(self.t != o.t) if isinstance(o, SymId) else True

    __hash__ = None  # type: ignore[assignment]


class SymRef:
    """duck type of the reference string: '!'*level + dotted path of symbolic ids"""

    def __init__(self, level: int, parts: list):
        self.level, self.parts = level, parts

    def __bool__(self) -> bool:
        return True

    def startswith(self, s: str) -> bool:
        assert s == "!"
        return self.level > 0

    def __getitem__(self, sl: slice) -> "SymRef":
        assert sl == slice(1, None, None)
        return SymRef(self.level - 1, self.parts)

    def split(self, sep: str) -> list:
        assert sep == "."
        return list(self.parts)


class Node:
    def __init__(self, nid: Any, parent: Any = None):
        self.id, self.parent, self.children = nid, parent, []
        if parent is not None:
            parent.children.append(self)

    def path(self) -> list:
        return (self.parent.path() if self.parent else []) + [self]

    def depth(self) -> int:
        return len(self.path())


class Proj:
    def __init__(self, tasks: list):
        self.tasks = tasks


TREES = {
    # declaration order = list order; (parent index or None)
    "T6a": [None, None, 1, 1, 3, None],          # n0, n1{n2, n3{n4}}, n5
    "T6b": [None, 0, 1, None, 3, 3],             # n0{n1{n2}}, n3{n4, n5}
    "T5c": [None, 0, None, 2, None],             # n0{n1}, n2{n3}, n4
}


def body_refs(e: K.Engine, tree: str, concrete: dict = None) -> None:
    from scriptplan.parser.tjp_parser import ModelBuilder

    shape = TREES[tree]
    nodes: list[Node] = []
    for k, par in enumerate(shape):
        if concrete is None:
            nid: Any = SymId(e.int_var(f"id{k}", 0, len(shape) - 1).t)
        else:
            nid = f"n{concrete[f'id{k}']}"
        nodes.append(Node(nid, nodes[par] if par is not None else None))
    # validity: sibling ids are unique (what the parser requires)
    for a in nodes:
        for b in nodes:
            if a is not b and a.parent is b.parent and nodes.index(a) < nodes.index(b):
                if concrete is None:
                    e.solver.add(a.id.t != b.id.t)
                elif a.id == b.id:
                    raise kern.Skip("sibling ids collide")
    proj = Proj(nodes)
    fn = ModelBuilder._resolve_task_reference
    fails = []
    for f in nodes:
        for x in nodes:
            # absolute spelling from task f: '!' * depth(f) + full dotted path of x
            for level, parts, what in _spellings(f, x):
                if concrete is None:
                    got = fn(None, proj, f, SymRef(level, [p.id for p in parts]))
                    ok = got is x
                    if not ok:
                        e.check(False, f"reference '{'!' * level}{'.'.join('n%d' % nodes.index(p) for p in parts)}' from n{nodes.index(f)} "
                                       f"resolves to {'n%d' % nodes.index(got) if got in nodes else got}, not to n{nodes.index(x)}")
                    else:
                        e.checks += 1
                        e.checks_unsat += 1
                else:
                    got = fn(None, proj, f, "!" * level + ".".join(p.id for p in parts))
                    if got is not x:
                        fails.append(f"'{'!' * level}{'.'.join(p.id for p in parts)}' from node {nodes.index(f)} -> node {nodes.index(got) if got in nodes else got}, expected node {nodes.index(x)}")
    if concrete is not None and fails:
        raise AssertionError("; ".join(fails[:3]))


def _spellings(f: Node, x: Node) -> list:
    """(level, path parts, description): spellings of a reference from f to x that must all denote x"""
    out = [(f.depth(), x.path(), "absolute")]
    fp, xp = f.path(), x.path()
    # relative: climb k levels from f (k = 1 is f's parent) and descend to x below that ancestor
    for k in range(1, f.depth()):
        anc = fp[-1 - k]
        if anc in xp and anc is not x:
            out.append((k, xp[xp.index(anc) + 1:], f"relative up {k}"))
    return out


def run_refs(tree: str) -> dict:
    e = K.Engine(max_paths=400000, max_decisions=4000)
    t0 = time.time()
    done = [0]

    def fn(en: K.Engine) -> None:
        if time.time() - t0 > 500:
            raise TimeoutError()
        body_refs(en, tree)
        done[0] += 1

    timed_out = False
    try:
        e.explore(fn)
    except TimeoutError:
        timed_out = True
    res = {"paths": e.paths, "nontrivial": e.nontrivial_paths, "queries": e.queries, "solver_s": round(e.solver_s, 2), "samples": e.path_samples[:2]}
    if e.violations:
        seen = {}
        for v in e.violations:
            seen.setdefault(v["label"], v)
        return {**res, "status": R.REFUTED, "counterexamples": list(seen.values())[:6], "detail": f"{len(seen)} references resolve to the wrong task for some identifier pattern"}
    if timed_out or not e.exhausted:
        return {**res, "status": R.EXPLORED, "detail": "budget"}
    return {**res, "status": R.DISCHARGED, "detail": f"all identifier equality patterns: {done[0]} paths"}


# ---- (b) pairs of spellings ----------------------------------------------------------------------------

def pair(kind: str):
    r = Res("r")
    if kind == "depends-vs-precedes":
        a = Spec([Task("a", effort=P("e0"), alloc=["r"]), Task("b", effort=P("e1"), alloc=["r"], deps=[Dep("a")]), Task("c", effort=P("e2"), alloc=["r"])], [r], length="4w")
        b = Spec([Task("a", effort=P("e0"), alloc=["r"], precedes=["b"]), Task("b", effort=P("e1"), alloc=["r"]), Task("c", effort=P("e2"), alloc=["r"])], [Res("r")], length="4w")
        return a, b, None
    if kind == "precedes-same-local-id":
        def mk(prec: bool) -> Spec:
            return Spec([Task("p1"), Task("build", parent="p1", effort=P("e0"), alloc=["r"]),
                         Task("p2"), Task("build", parent="p2", effort=P("e1"), alloc=["q"], precedes=["release"] if prec else []),
                         Task("release", effort=P("e2"), alloc=["r"], deps=[Dep("p1.build")] + ([] if prec else [Dep("p2.build")]))],
                        [Res("r"), Res("q")], length="4w")
        return mk(False), mk(True), None
    if kind == "relative-vs-absolute":
        def mk(rel: bool) -> Spec:
            return Spec([Task("c"), Task("a", parent="c", effort=P("e0"), alloc=["r"]), Task("b", parent="c"),
                         Task("d", parent="c.b", effort=P("e1"), alloc=["r"], deps=[Dep("c.a", ref="!!a" if rel else "!!!c.a")]),
                         Task("x", effort=P("e2"), alloc=["r"])], [Res("r")], length="4w")
        return mk(True), mk(False), None
    if kind == "nested-vs-root-id":
        # a root-level task and a nested task share a local id; the reference means the root-level sibling
        def mk(same: bool) -> Spec:
            nid = "build" if same else "nbuild"
            return Spec([Task("grp"), Task(nid, parent="grp", effort=P("e0"), alloc=["q"]), Task("build", effort=P("e1"), alloc=["r"]),
                         Task("rel", effort=P("e2"), alloc=["r"], deps=[Dep("build")])], [Res("r"), Res("q")], length="4w")
        ren = lambda tid: tid.replace("grp.build", "grp.nbuild")
        return mk(True), mk(False), ren
    if kind == "alap-same-local-id":
        # backward scheduling from an anchored task whose two predecessors have the same local id in different containers
        def mk(second: str) -> Spec:
            FRI = 9 * H + 4 * 86400 + 8 * H
            return Spec([Task("ph1"), Task("design", parent="ph1", effort=P("e0"), alloc=["q1"]), Task("ph2"), Task(second, parent="ph2", effort=P("e1"), alloc=["q2"]),
                         Task("release", effort=P("e2"), alloc=["r"], scheduling="alap", end=FRI + 7 * 86400, deps=[Dep("ph1.design"), Dep("ph2." + second)])],
                        [Res("r"), Res("q1"), Res("q2")], length="4w")
        return mk("design"), mk("build"), (lambda tid: tid.replace("ph2.design", "ph2.build"))
    if kind == "shift-vs-inline":
        hours = ["mon - thu 8:00 - 12:00, 13:00 - 17:00", "fri 8:00 - 13:00"]
        tasks = lambda: [Task("a", effort=P("e0"), alloc=["r"]), Task("b", effort=P("e1"), alloc=["r"], deps=[Dep("a")])]
        return (Spec(tasks(), [Res("r", shift="s1")], shifts={"s1": hours}, length="4w"), Spec(tasks(), [Res("r", hours=hours)], length="4w"), None)
    if kind == "renamed":
        def mk(n: dict) -> Spec:
            return Spec([Task(n["c"]), Task(n["a"], parent=n["c"], effort=P("e0"), alloc=[n["r"]]),
                         Task(n["b"], parent=n["c"], effort=P("e1"), alloc=[n["r"]], deps=[Dep(n["c"] + "." + n["a"])]),
                         Task(n["x"], effort=P("e2"), alloc=[n["r"]], deps=[Dep(n["c"])])], [Res(n["r"])], length="4w")
        n1 = {"c": "c", "a": "a", "b": "b", "x": "x", "r": "r"}
        n2 = {"c": "zeta", "a": "b", "b": "a", "x": "c", "r": "x"}   # a permutation incl. names that collide across kinds
        m = {"c": "zeta", "c.a": "zeta.b", "c.b": "zeta.a", "x": "c"}
        return mk(n1), mk(n2), (lambda tid: m[tid])
    raise ValueError(kind)


PAIRS = ["alap-same-local-id", "depends-vs-precedes", "precedes-same-local-id", "relative-vs-absolute", "nested-vs-root-id", "shift-vs-inline", "renamed"]


def cells(tier: str) -> dict:
    out = {}
    for kind in PAIRS:
        def f(kind=kind):
            a, b, ren = pair(kind)
            rg = {p: (60, 3 * H) for p in a.params()}
            tids = [a.full_id(t) for t in a.tasks]

            def rel(specs, vals, obs, infos):
                return same_dates(tids, obs[0], obs[1], f"C15 {kind}: the two spellings differ", map_b=ren)
            return RelCell([a, b], rg, rel)
        out[f"pair[{kind}]"] = f
    return out


_chk = sxlib.SxCheck("C15", [], cells)
META = dict(sxlib.SX_META, functions=["ModelBuilder._resolve_task_reference (ksym, symbolic identifiers)", "ModelBuilder._resolve_dependencies/_resolve_precedes", "TaskScenario._resolve_resource",
                                      "shift lookup in ModelBuilder", "Project.scheduleScenario"],
            bounds="(a) task trees of 5-6 nodes (3 shapes, depth <= 3), ids symbolic up to equality (all sibling-unique patterns), every absolute and every "
                   "'!'-relative spelling from every node to every node; (b) 6 pairs of spellings with 3 symbolic efforts each. OUTSIDE: comments, whitespace, macros "
                   "(text-level rewrites: symbolic strings through regexes/Lark are out of reach)")


def conditions(tier, seed):
    cs = _chk.conditions(tier, seed)
    for t in TREES:
        cs.append({"name": f"refs[{t}]", "bounds": "all sibling-unique equality patterns of the ids", "timeout": 600})
    return cs


def run_condition(name, tier, seed):
    if name.startswith("refs["):
        return run_refs(name[5:-1])
    return _chk.run_condition(name, tier, seed)


def replay(record):
    name = record["condition"]
    if name.startswith("refs["):
        try:
            body_refs(None, name[5:-1], record["inputs"])
        except kern.Skip as s:
            return {"reproduced": False, "detail": str(s)}
        except AssertionError as a:
            return {"reproduced": True, "detail": str(a)}
        return {"reproduced": False, "detail": "resolves correctly with concrete string ids"}
    return _chk.replay(record)


known_match = sxlib.known_match
