"""C14 - shifting the calendar by whole weeks shifts the schedule by the same amount (Engine A, relational)."""
from datetime import datetime, timedelta

from sx.run import RelCell, same_dates
from sx.spec import Dep, P, Res, Spec, Task

from . import sxlib
from .sxlib import H

PROPERTY = "C14"


def d(start: datetime, days: int) -> str:
    return (start + timedelta(days=days)).strftime("%Y-%m-%d")


def proj(kind: str, start: datetime) -> Spec:
    """all dates of the project are expressed relative to its start, so a shifted start shifts every date"""
    if kind == "chain":
        return Spec([Task("a", effort=P("e0"), alloc=["r"]), Task("b", effort=P("e1"), alloc=["r"], deps=[Dep("a", gap="1d")]),
                     Task("c", effort=P("e2"), alloc=["r"], start=P("s0"))], [Res("r")], start=start, length="4w", time_unit=H)
    if kind == "calendar":
        r = Res("r", hours=["mon - thu 8:00 - 12:00, 13:00 - 17:00", "fri 8:00 - 13:00"], leaves=[f"annual {d(start, 2)} - {d(start, 4)}"])
        return Spec([Task("a", effort=P("e0"), alloc=["r"]), Task("b", effort=P("e1"), alloc=["r"], deps=[Dep("a")])], [r],
                    start=start, length="4w", vacations=[d(start, 1), f"{d(start, 8)} - {d(start, 10)}"])
    if kind in ("weekly", "daily"):
        lim = {"weeklymax": "5h"} if kind == "weekly" else {"dailymax": "2h"}
        return Spec([Task("a", effort=P("e0"), alloc=["r"]), Task("b", effort=P("e1"), alloc=["r"])], [Res("r", limits=lim)], start=start, length="5w")
    # long project: work pinned ~2 years after the start under a weekly limit (period indices across year boundaries)
    return Spec([Task("a", effort=P("e0"), alloc=["r"], start=P("s0")), Task("b", effort=P("e1"), alloc=["r"], deps=[Dep("a")])],
                [Res("r", limits={"weeklymax": "5h"})], start=start, length="112w", time_unit=7 * 86400)


def cells(tier: str) -> dict:
    out = {}
    shifts = [("monthend", datetime(2025, 1, 20), 1), ("yearend", datetime(2025, 12, 8), 3), ("isow1", datetime(2025, 12, 22), 2), ("jan1", datetime(2027, 1, 1), 1), ("leapday", datetime(2028, 2, 14), 2),
              ("w53", datetime(2026, 12, 14), 2), ("years", datetime(2025, 1, 6), 157)]
    if tier == "quick":
        shifts = shifts[:5]

    def add(name, kind, start, k, rg_f):
        def f():
            a = proj(kind, start)
            b = proj(kind, start + timedelta(weeks=k))
            rg = rg_f(a)
            tids = [a.full_id(t) for t in a.tasks]

            def rel(specs, vals, obs, infos):
                return same_dates(tids, obs[0], obs[1], f"C14 shifting every date by {k} week(s) changed (relative to the project start)")
            return RelCell([a, b], rg, rel)
        out[name] = f

    def e_rg(lo, hi, s0=None):
        def g(sp):
            r = {p: (lo, hi) for p in sp.params() if p.startswith("e")}
            if s0:
                r["s0"] = s0
            return r
        return g

    for nm, st, k in shifts:
        add(f"chain[{nm},+{k}w]", "chain", st, k, e_rg(60, 3 * H, (0, 200)))
        add(f"calendar[{nm},+{k}w]", "calendar", st, k, e_rg(60, 6 * H))
        add(f"weekly[{nm},+{k}w]", "weekly", st, k, e_rg(2 * H, 9 * H))
        if tier != "quick":
            add(f"daily[{nm},+{k}w]", "daily", st, k, e_rg(H, 5 * H))
    # narrow variants (efforts around the boundaries that matter): small path trees
    for nm, st, k in shifts[:3]:
        add(f"chain[{nm},+{k}w,narrow]", "chain", st, k, e_rg(60, H, (0, 30)))
        add(f"weekly[{nm},+{k}w,narrow]", "weekly", st, k, e_rg(4 * H, 6 * H))
    # two-year horizon: the pinned week offset ranges over the weeks around the end of the 53-week ISO year 2026
    add("long[2025,+1w]", "long", datetime(2025, 1, 6), 1, e_rg(6 * H, 9 * H, (101, 105)))
    add("long[2025,+52w]", "long", datetime(2025, 1, 6), 52, e_rg(6 * H, 9 * H, (101, 105)))
    return out


_chk = sxlib.SxCheck("C14", [], cells)
META = dict(sxlib.SX_META, functions=["Limit._idx_to_sb_idx (tabulated by the real method per project)", "WorkingHours.onShift / Project._isDefaultWorkingTime (tabulated by the real methods)",
                                      "ModelBuilder.build (dates)", "Project._extendProjectEndIfNeeded", "Project.scheduleScenario"],
            bounds="UTC projects {chain with 1d gap and pinned start, custom hours + leave + vacations, weeklymax, dailymax, 2-year project with work pinned around "
                   "the end of ISO year 2026}; week offsets crossing a month end, a year end, 29 February, ISO week 53, and 157 weeks; efforts symbolic; "
                   "both projects are scheduled in one traced call and compared relative to their own start")
conditions, run_condition, replay, known_match = _chk.conditions, _chk.run_condition, _chk.replay, sxlib.known_match
