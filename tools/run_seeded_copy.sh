#!/bin/bash
# tools/run_seeded_copy.sh <patch.diff> <property> [extra check args]: run a check against a patched SCRATCH COPY of /repo
# (for use while other checks are reading /repo; the copy is removed afterwards).  No evidence is written.
PATCH=$(readlink -f "$1"); PID=$2; shift; shift
RC_DIR=$(mktemp -d /tmp/rc.XXXXXX)
rsync -a --exclude=.git /repo/ "$RC_DIR"/ && (cd "$RC_DIR" && patch -p1 -s < "$PATCH") || { echo "PATCH DOES NOT APPLY"; rm -rf "$RC_DIR"; exit 3; }
cd /verif; VERIF_REPO=$RC_DIR PYTHONPATH=$RC_DIR ./bin/check $PID --no-evidence "$@" > /tmp/seededcopy_$(basename $(dirname $PATCH))_$PID.log 2>&1; RC=$?
rm -rf "$RC_DIR"
echo "$(basename $(dirname $PATCH)) (scratch copy) on $PID: exit=$RC $(grep -c '^VIOLATION' /tmp/seededcopy_$(basename $(dirname $PATCH))_$PID.log) violation lines; $(tail -1 /tmp/seededcopy_$(basename $(dirname $PATCH))_$PID.log)"
