#!/bin/bash
# tools/run_seeded.sh <seed-name> [property] [extra check args]: apply a seeded change to /repo, run the quick check, undo
NAME=$1; PID=${2:-$(python3 -c "import json;print(json.load(open('/verif/seeded/$NAME/meta.json'))['property'])")}; shift; shift
cd /repo || exit 3
if ! git diff --quiet; then echo "repo has uncommitted changes"; exit 3; fi
git apply /verif/seeded/$NAME/patch.diff || { echo "PATCH DOES NOT APPLY"; exit 3; }
cd /verif; ./bin/check $PID --no-evidence "$@" > /tmp/seeded_$NAME.log 2>&1; RC=$?
git -C /repo checkout -- . ; git -C /repo clean -fdq -- scriptplan >/dev/null 2>&1
echo "$NAME on $PID: exit=$RC $(grep -c '^VIOLATION' /tmp/seeded_$NAME.log) violation lines; $(tail -1 /tmp/seeded_$NAME.log)"
