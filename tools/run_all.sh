#!/bin/bash
# run every registered check (quick by default) sequentially; summary in /tmp/run_all_<tier>.log
TIER=${1:-quick}
cd /verif
: > /tmp/run_all_$TIER.log
for p in C01 C02 C03 C04 C05 C06 C07 C08 C09 C10 C11 C12 C13 C14 C15 C16 C17 C18 C19 C20; do
  s=$(date +%s)
  ./bin/check $p --tier $TIER > /tmp/run_all_${TIER}_$p.log 2>&1; rc=$?
  echo "$p rc=$rc $(( $(date +%s) - s ))s $(tail -1 /tmp/run_all_${TIER}_$p.log)" >> /tmp/run_all_$TIER.log
done
echo DONE >> /tmp/run_all_$TIER.log
