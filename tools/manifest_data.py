HOOK_COMMITS = []
ENGINES = [
    {"name": "ksym", "path": "/verif/ksym", "serves_properties": ["C17", "C13"],
     "kind_free_text": "own symbolic executor (z3): operator-overloading wrappers over z3 Int/Real/Bool, fork by re-execution with a decision prefix, integer-time model, IEEE division error model; runs the real function objects of /repo with module globals rebound; .pyx bodies via a transliteration regenerated on every run"},
]
NOTES = ("Solver-based checking of the real code. Every check: ./bin/check <ID> --tier quick|thorough; exit 0 / 1 (+VIOLATION line) / 2 (harness error). "
         "Verdicts are bounded: a condition is 'discharged' only when its path tree was exhausted and every obligation was unsat; otherwise it is reported as explored/inconclusive in the evidence.")
_TB = "Trusted base: z3 5.1.0, CPython 3.12, the ksym wrappers and the .pyx transliterator (validated on a concrete grid against freshly built extensions on every run)."
CHECKS = {
    "C17": {"engine": "ksym", "technique": "bounded symbolic execution (ksym + z3) of the real Scoreboard/Project index functions and of the transliterated .pyx bodies",
            "level_text": "Bounded symbolic verification: for every supported resolution, every window up to 2**31 s and every index/instant in it, each path of the real idxToDate/dateToIdx/size code is executed on z3 terms and the algebraic laws are discharged as unsat queries; interval scan: all predicate patterns and windows over tables of <= N slots against a declarative run specification. Counterexamples are replayed natively.",
            "level_note": "Integer-time model (whole seconds); one IEEE double division modelled with an explicit error term; Cython via transliteration with overflow obligations. " + _TB,
            "design_ref": "DESIGN.md 2.2, 6 (C17)"},
}
NOT_APPLICABLE = {}
