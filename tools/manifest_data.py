HOOK_COMMITS = []
ENGINES = [
    {"name": "ksym", "path": "/verif/ksym", "serves_properties": ["C17", "C13"],
     "kind_free_text": "own symbolic executor (z3): operator-overloading wrappers over z3 Int/Real/Bool, fork by re-execution with a decision prefix, integer-time model, IEEE division error model; runs the real function objects of /repo with module globals rebound; .pyx bodies via a transliteration regenerated on every run"},
]
NOTES = ("Solver-based checking of the real code. Every check: ./bin/check <ID> --tier quick|thorough; exit 0 / 1 (+VIOLATION line) / 2 (harness error). "
         "Verdicts are bounded: a condition is 'discharged' only when its path tree was exhausted and every obligation was unsat; otherwise it is reported as explored/inconclusive in the evidence.")
_TB = "Trusted base: z3 5.1.0, CPython 3.12, the ksym wrappers and the .pyx transliterator (validated on a concrete grid against freshly built extensions on every run)."
CHECKS = {
    "C17": {"engine": "ksym", "technique": "bounded symbolic execution (ksym + z3) of the real Scoreboard/Project index functions and of the transliterated .pyx bodies",
            "level_text": "Bounded symbolic verification: for every supported resolution, every window up to 2**31 s and every index/instant in it, each path of the real idxToDate/dateToIdx/size code is executed on z3 terms and the algebraic laws are discharged as unsat queries; interval scan: all predicate patterns and windows over tables of <= N slots against a declarative run specification. Counterexamples are replayed natively.",
            "level_note": "Integer-time model (whole seconds); one IEEE double division modelled with an explicit error term; Cython via transliteration with overflow obligations. " + _TB,
            "design_ref": "DESIGN.md 2.2, 6 (C17)"},
}
CHECKS["C13"] = {"engine": "ksym", "technique": "differential bounded symbolic execution (ksym + z3, z3 FP theory for the float32 return) of each accelerated function vs its pure-Python fallback through the real wrapper methods",
    "level_text": "Bounded symbolic equivalence: each wrapper (Scoreboard.idxToDate/dateToIdx/collectIntervals, Project.dateToIdx/idxToDate, WorkingHours.onShift/get_daily_hours) is run with _USE_CYTHON False and True on the same symbolic arguments in the same path; results must be equal or both raise; C-int overflow of the .pyx code is an obligation. The .pyx side is a transliteration regenerated from the current text and validated on a concrete grid against a fresh build in the same run. Whole-project equality follows by composition and is not re-decided.",
    "level_note": "Same models as C17; WorkingHours with <= 2 intervals on each of 2 symbolic weekdays; scan tables <= 8 slots. " + _TB,
    "design_ref": "DESIGN.md 2.2, 5.4, 6 (C13)"}
_FSX = "Trusted base: the in-memory OS model fsx/model.py (real bytes, CPython TextIOWrapper), the engine stub (contract of run_scriptplan), z3 5.1.0; cleanup operations do not fail; every counterexample is replayed against the real `plan` entry point in a subprocess."
CHECKS["C19"] = {"engine": "fsx", "technique": "symbolic environment/fault-schedule exploration (ksym decision tree over z3 variables) of the real plan.report body against a modelled OS",
    "level_text": "Exhaustive bounded exploration of environment and fault assignments: input class x channel x format x flags x engine outcome x user-report sets x glob orders x <= k injected I/O faults; on every path the documented contract (exit code, single report on stdout, JSON shape and report_id = SHA-256 of the input bytes, auto report selected, diagnostics on stderr, channel equivalence) is judged by an oracle written from the documentation.",
    "level_note": _FSX + " Real JSON/CSV bytes, click argument handling and the real engine are observed only in replay.",
    "design_ref": "DESIGN.md 2.3, 6 (C19)"}
CHECKS["C20"] = {"engine": "fsx", "technique": "symbolic fault-schedule exploration (ksym decision tree over z3 variables) of the real plan.report body against a modelled OS; footprint-disjointness argument for concurrency",
    "level_text": "Exhaustive bounded exploration of all exit paths under <= k injected I/O faults: nothing the run created survives, nothing is created outside its own mkstemp/mkdtemp paths; two modelled runs with distinct temp-name seeds have disjoint write footprints and the second produces its solitary output (interleavings are covered by the disjointness argument, not enumerated).",
    "level_note": _FSX + " Kernel-level races, signals and SIGKILL are outside the claim.",
    "design_ref": "DESIGN.md 2.3, 6 (C20)"}
ENGINES.append({"name": "fsx", "path": "/verif/fsx", "serves_properties": ["C19", "C20"], "kind_free_text": "in-memory OS model + ksym decision-tree exploration of environment/fault variables; the real body of scriptplan.cli.plan.report runs with rebound module globals; replay against the real CLI in a subprocess"})
_SX = "Trusted base: CrossHair 0.0.110 + z3 5.1.0; floats as reals inside traced runs; IntTime clock; calendars and limit-period indices tabulated by the real methods before tracing; independent oracles sx/oracle.py; counterexamples replayed through the public API before reporting."
ENGINES.append({"name": "sx", "path": "/verif/sx", "serves_properties": ["C01", "C03", "C04", "C05", "C06", "C08", "C10", "C11"], "kind_free_text": "CrossHair (symbolic execution of Python with z3) on the real Project.scheduleScenario/finishScenario and everything below, driven programmatically with an exhaustion spy; projects built from declarative specs; symbolic efforts/priorities/pinned offsets"})
def _sx(pid, what, ref):
    CHECKS[pid] = {"engine": "sx", "technique": "bounded symbolic execution (CrossHair + z3) of the real scheduler on spec-built projects, independent oracle as postcondition",
        "level_text": "Bounded symbolic verification per cell: " + what + " A cell counts as discharged only when CrossHair exhausted its path tree with verdict CONFIRMED; cells that ran out of budget are reported as explored (bug hunting) in the evidence.",
        "level_note": _SX, "design_ref": ref}
_sx("C01", "per slot and resource the booked seconds never exceed the slot, the used-seconds counter covers them, and the reported intervals of sharers are disjoint inside the slot, for every effort vector (symbolic seconds) of the template family.", "DESIGN.md 6 (C01)")
_sx("C03", "booked seconds x efficiency equal the requested effort within one second, team members carry identical bookings, exactly one candidate allocation is booked.", "DESIGN.md 6 (C03)")
_sx("C04", "every edge re-derived from the spec (own, inherited from containers, precedes; on-end / on-start; gaps 29min/1h/1d in calendar time) is respected by the reported dates.", "DESIGN.md 6 (C04)")
_sx("C05", "per calendar day / ISO week computed by the oracle the booked seconds never exceed dailymax/weeklymax on a resource, a group, a task, a parent task, incl. the horizon beyond the declared end, year ends, ISO week 53, ALAP.", "DESIGN.md 6 (C05)")
_sx("C06", "first/last booked slot are the slots of start/end, the interval is long enough for the work booked in them, start <= end, work implies positive length.", "DESIGN.md 6 (C06)")
_sx("C08", "every working slot with free seconds between a forward task's dependency bound and its end carries an entry of the task, and the task starts at the first instant its resource is free for it.", "DESIGN.md 6 (C08)")
_sx("C10", "container.scheduled <=> all children scheduled, start/end = min/max of the children at every level, only leaf tasks and leaf resources carry bookings; incl. unschedulable leaves.", "DESIGN.md 6 (C10)")
_sx("C11", "no exception escapes scheduling, every leaf is scheduled inside the horizon or unscheduled with a warning, and the number of slot steps stays proportional to leaves x horizon (a hang becomes a counterexample); efforts 0..400 h, pins from before the start to past the end, cycles, resources that never work.", "DESIGN.md 6 (C11)")
NOT_APPLICABLE = {}
