#!/usr/bin/env python3
"""Print the prompt given to a mutation sub-agent for one property (text of the property only)."""
import json, sys
pid = sys.argv[1]
wt = sys.argv[2] if len(sys.argv) > 2 else f"/tmp/wt-{pid}"
props = {json.loads(l)["id"]: json.loads(l) for l in open("/verif/properties.jsonl")}
p = props[pid]
print(f"""You are helping to test a verification framework by seeding a realistic bug ("mutation") into a Python project.

The project is scriptplan (a pure-Python TaskJuggler-compatible project scheduler). You have your own scratch git worktree of it at {wt} . Work ONLY inside {wt} (and, if you need scratch files, inside {wt}/_scratch). Do NOT read or touch /repo, /verif or any other directory; do not commit anything.

How to run things: `cd {wt} && /venv/bin/python -m pytest -q -p no:cacheprovider -x` runs the existing suite (383 tests, about 30 s) against the worktree's code (cwd comes first on sys.path; confirm with `cd {wt} && /venv/bin/python -c "import scriptplan; print(scriptplan.__file__)"` that it prints a path under {wt}). There is no network. The compiled Cython extensions are not present in the worktree, so the pure-Python fallbacks run; if you change a .pyx file, also make the equivalent change in its pure-Python twin or say explicitly that you did not.

The semantic property to break:

  id: {pid}
  title: {p['title']}
  statement: {p['statement']}
  scope (quantifier): {p['quantifier']['text']}

Your task: make ONE small, realistic change to the source under {wt}/scriptplan (the kind of slip a maintainer could plausibly make in a refactoring, optimisation or feature tweak - not sabotage, not a syntax error, not deleting a feature wholesale) such that
  1. the package still imports and the ENTIRE existing test suite still passes (all 383 tests; run it and confirm);
  2. the property above is violated for SOME input - but only under specific circumstances: it should need something particular to manifest (an unusual input value or combination, a particular calendar position, a multi-step sequence of operations, a particular fault point, or two code sites that each look fine alone), NOT something that ordinary use or any simple project would expose at once;
  3. you have a demonstration: a small self-contained Python script {wt}/_scratch/demo.py (runs with `cd {wt} && /venv/bin/python _scratch/demo.py`, uses only the public API of the package, e.g. `from scriptplan.parser.tjp_parser import ProjectFileParser; project = ProjectFileParser().parse(text); project.schedule()`, or the CLI entry points) that exits with status 1 and prints what is wrong WITH your change, and exits 0 WITHOUT it (verify both: use `git stash` / `git stash pop`, or `git diff > _scratch/patch.diff; git checkout -- scriptplan; ...; git apply _scratch/patch.diff`). The demo must check the property itself (e.g. recompute what should hold from the project text), not just compare against a hard-coded golden value copied from the unmodified run - although comparing with an independently derived expected value is fine.

Read the code first to find where the property is actually enforced. Prefer a change in the logic that makes the property hold (or in code it depends on) over a change in unrelated plumbing. Keep the diff small (a few lines).

When done, leave in {wt}/_scratch/: patch.diff (output of `git diff -- scriptplan` with your change applied), demo.py, and notes.md (what you changed, why it breaks the property, exactly what is needed for it to manifest, and the commands you ran with their outcomes: full test suite result with the change, demo exit status with and without the change). Leave the worktree with your change APPLIED. Your final message should summarise the same in a few lines. If after a serious attempt you cannot find a change that passes all tests and still breaks the property, say so honestly instead of forcing something.""")
