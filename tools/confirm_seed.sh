#!/bin/bash
# tools/confirm_seed.sh <property> <name> <worktree>  -- confirm an agent's seeded change, store it under /verif/seeded/<name>/
set -u
PID=$1; NAME=$2; WT=$3
OUT=/verif/seeded/$NAME
mkdir -p $OUT
cp $WT/_scratch/patch.diff $WT/_scratch/demo.py $OUT/ || exit 3
[ -f $WT/_scratch/notes.md ] && cp $WT/_scratch/notes.md $OUT/notes.md
cd $WT
git checkout -q -- scriptplan
/venv/bin/python _scratch/demo.py >/tmp/seed_demo_clean.txt 2>&1; RC_CLEAN=$?
git apply $OUT/patch.diff || { echo "patch does not apply"; exit 3; }
/venv/bin/python -m pytest -q -p no:cacheprovider -x 2>&1 | tail -1 > /tmp/seed_tests.txt; 
TESTS=$(cat /tmp/seed_tests.txt)
/venv/bin/python _scratch/demo.py >/tmp/seed_demo_mut.txt 2>&1; RC_MUT=$?
echo "clean demo rc=$RC_CLEAN ; tests with patch: $TESTS ; mutated demo rc=$RC_MUT"
tail -3 /tmp/seed_demo_mut.txt
python3 - <<PY
import json
json.dump({"property":"$PID","name":"$NAME","demo_rc_without_patch":$RC_CLEAN,"demo_rc_with_patch":$RC_MUT,
 "tests_with_patch":"""$TESTS""".strip(),"source":"independent sub-agent given only the property text and a scratch worktree",
 "confirmed_by":"tools/confirm_seed.sh: demo on clean worktree, git apply, full pytest, demo again"}, open("$OUT/meta.json","w"), indent=1)
PY
git checkout -q -- scriptplan
