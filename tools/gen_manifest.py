#!/usr/bin/env python3
"""Regenerate MANIFEST.json from the check modules present in checks/ (single source of truth: tools/manifest_data.py)."""
import json, os, sys
sys.path.insert(0, "/verif")
from tools import manifest_data as D

props = [json.loads(l)["id"] for l in open("/verif/properties.jsonl")]
checks = []
for pid in props:
    if pid in D.CHECKS:
        c = D.CHECKS[pid]
        checks.append({
            "property_id": pid,
            "quick_cmd": f"./bin/check {pid} --tier quick",
            "thorough_cmd": f"./bin/check {pid} --tier thorough",
            "evidence_file": f"/verif/evidence/{pid}.json",
            "replay_cmd_template": f"./bin/check {pid} --replay {{path}}",
            "engine": c["engine"],
            "level_claimed": {"category": "other", "text": c["level_text"], "design_ref": c.get("design_ref", "DESIGN.md section 6")},
            "level_note": c["level_note"],
            "technique": c["technique"],
        })
na = [{"property_id": p, "reason": D.NOT_APPLICABLE.get(p, "check not built yet in this tree (work in progress)")} for p in props if p not in D.CHECKS]
m = {
    "version": 1,
    "setup_cmd": "./bin/setup",
    "hooks": {"guard": "SCRIPTPLAN_VERIF", "enable": "no source hooks: harnesses rebind module globals of the real functions at run time; SCRIPTPLAN_VERIF is reserved and unused",
              "baseline_off_cmd": "cd /repo && /venv/bin/python -m pytest -ra -q -p no:cacheprovider --timeout=900 --continue-on-collection-errors",
              "source_commits": D.HOOK_COMMITS, "add_only": True},
    "engines": D.ENGINES,
    "checks": checks,
    "notes": D.NOTES,
    "not_applicable": na,
}
json.dump(m, open("/verif/MANIFEST.json", "w"), indent=1)
import jsonschema
jsonschema.validate(m, json.load(open("/root/.vp/MANIFEST.schema.json")))
print("MANIFEST ok:", len(checks), "checks,", len(na), "not applicable")
