#!/bin/bash
# regenerate the tracked .c files from the .pyx sources of /repo (same Cython as the image) and rebuild the
# untracked in-place extensions so that the local runtime matches the sources
set -e
cd ${1:-/repo}
/venv/bin/python - <<'PY'
from Cython.Build import cythonize
from setuptools import Extension
exts=[Extension("scriptplan._cython."+n,[f"scriptplan/_cython/{n}.pyx"],language="c") for n in ["scoreboard_cy","time_utils_cy","working_hours_cy"]]
cythonize(exts,compiler_directives={"language_level":"3","boundscheck":False,"wraparound":False,"cdivision":True,"initializedcheck":False},annotate=False,force=True,quiet=True)
PY
/venv/bin/python setup.py -q build_ext --inplace >/dev/null 2>&1
rm -rf build
ls -la scriptplan/_cython/*.so | awk '{print $6,$7,$8,$9}'
