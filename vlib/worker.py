"""Worker: run one condition of one check module, write its result as JSON."""
import importlib
import json
import sys
import traceback


def main() -> int:
    module, name, tier, seed, out = sys.argv[1:6]
    try:
        mod = importlib.import_module(module)
        res = mod.run_condition(name, tier, int(seed))
    except BaseException as e:  # noqa: BLE001 - a worker never propagates
        res = {"status": "HARNESS_ERROR", "detail": "".join(traceback.format_exception(type(e), e, e.__traceback__))[-4000:]}
    with open(out, "w") as f:
        json.dump(res, f, default=str)
    return 0


if __name__ == "__main__":
    sys.exit(main())
