"""Build the three Cython extensions from the CURRENT .pyx text of /repo into a scratch directory."""
from __future__ import annotations

import importlib.util
import os
import shutil
import subprocess
import sys
import tempfile

REPO = os.environ.get("VERIF_REPO", "/repo")
PYX_DIR = os.path.join(REPO, "scriptplan", "_cython")
NAMES = ["scoreboard_cy", "time_utils_cy", "working_hours_cy"]


def build(keep_dir: str | None = None) -> str:
    """returns a directory containing freshly built <name>*.so ; caller removes it"""
    d = keep_dir or tempfile.mkdtemp(prefix="verif_cy_")
    pkg = os.path.join(d, "src")
    os.makedirs(pkg, exist_ok=True)
    for n in NAMES:
        shutil.copy(os.path.join(PYX_DIR, n + ".pyx"), os.path.join(pkg, n + ".pyx"))
    setup = os.path.join(pkg, "setup.py")
    with open(setup, "w") as f:
        f.write(
            "from setuptools import setup, Extension\nfrom Cython.Build import cythonize\n"
            "exts=[Extension(n,[n+'.pyx']) for n in %r]\n"
            "setup(name='x',ext_modules=cythonize(exts,compiler_directives={'language_level':'3'},quiet=True),script_args=['build_ext','--inplace','-q'])\n"
            % NAMES
        )
    env = dict(os.environ)
    env["CFLAGS"] = env.get("CFLAGS", "") + " -O1 -w"
    r = subprocess.run([sys.executable, "setup.py"], cwd=pkg, env=env, capture_output=True, text=True)
    if r.returncode != 0:
        raise RuntimeError("cython build failed:\n" + r.stdout[-2000:] + r.stderr[-4000:])
    return pkg


def load(pkg_dir: str, name: str, as_name: str | None = None):
    for fn in os.listdir(pkg_dir):
        if fn.startswith(name + ".") and fn.endswith(".so"):
            spec = importlib.util.spec_from_file_location(as_name or name, os.path.join(pkg_dir, fn))
            mod = importlib.util.module_from_spec(spec)
            spec.loader.exec_module(mod)
            return mod
    raise FileNotFoundError(name)


def install_fresh(pkg_dir: str) -> None:
    """register fresh extensions as scriptplan._cython.* before scriptplan modules import them"""
    import scriptplan._cython  # noqa: F401  (package itself has no side effects)

    for n in NAMES:
        full = "scriptplan._cython." + n
        mod = load(pkg_dir, n, full)
        sys.modules[full] = mod
