"""Common check runner: conditions -> worker subprocesses -> verdicts -> evidence, VIOLATION lines.

A *check module* (checks/cXX.py) exposes

    PROPERTY = "C17"
    def conditions(tier: str, seed: int) -> list[dict]      # {"name", "bounds", "timeout", "weight"?}
    def run_condition(name: str, tier: str, seed: int) -> dict   # executed in a worker process
    def replay(record: dict) -> dict                          # {"reproduced": bool, "detail": str}
    META = {"level": ..., "explanation": ..., "functions": [...], "assumptions": [...], "rule": ...}

run_condition returns
    {"status": DISCHARGED | EXPLORED | REFUTED | INCONCLUSIVE | HARNESS_ERROR,
     "paths": int, "nontrivial": int, "queries": int, "solver_s": float,
     "counterexamples": [ {"label":..., "inputs": {...}, ...} ],     # only for REFUTED
     "samples": [...], "detail": str}

The runner replays every counterexample natively (module.replay) before anything is printed;
non-reproducing ones are recorded as spurious and never reported as violations.
"""
from __future__ import annotations

import argparse
import hashlib
import importlib
import json
import os
import subprocess
import sys
import time
from concurrent.futures import ThreadPoolExecutor
from typing import Any

VERIF = os.path.dirname(os.path.dirname(os.path.abspath(__file__)))
PY = os.path.join(VERIF, ".venv", "bin", "python")
EXIT_OK, EXIT_VIOLATION, EXIT_HARNESS = 0, 1, 2

DISCHARGED, EXPLORED, REFUTED, INCONCLUSIVE, HARNESS_ERROR = (
    "DISCHARGED", "EXPLORED", "REFUTED", "INCONCLUSIVE", "HARNESS_ERROR")


def ensure_env() -> None:
    """make sure the overlay venv exists (vp check runs setup_cmd first; this is a safety net)"""
    if not os.path.exists(PY):
        subprocess.run([os.path.join(VERIF, "bin", "setup")], check=True, stdout=subprocess.DEVNULL)


def load_known() -> list[dict]:
    p = os.path.join(VERIF, "known_findings.json")
    if not os.path.exists(p):
        return []
    with open(p) as f:
        return json.load(f).get("findings", [])


def _worker_cmd(module: str, name: str, tier: str, seed: int, out: str) -> list[str]:
    return [PY, "-m", "vlib.worker", module, name, tier, str(seed), out]


def _run_one(module: str, cond: dict, tier: str, seed: int, tmpdir: str) -> dict:
    name = cond["name"]
    out = os.path.join(tmpdir, hashlib.sha1(name.encode()).hexdigest()[:16] + ".json")
    t0 = time.time()
    env = dict(os.environ)
    env["PYTHONPATH"] = VERIF + os.pathsep + env.get("PYTHONPATH", "")
    env["PYTHONHASHSEED"] = "0"
    env.setdefault("VERIF_REPO", "/repo")
    try:
        p = subprocess.run(_worker_cmd(module, name, tier, seed, out), cwd=VERIF, env=env,
                           capture_output=True, text=True, timeout=cond.get("timeout", 600) + 30)
        if os.path.exists(out):
            with open(out) as f:
                res = json.load(f)
        else:
            res = {"status": HARNESS_ERROR, "detail": "worker produced no result: rc=%s\n%s\n%s" % (
                p.returncode, p.stdout[-1500:], p.stderr[-3000:])}
    except subprocess.TimeoutExpired:
        res = {"status": INCONCLUSIVE, "detail": "worker timed out (hard limit)"}
    res.setdefault("paths", 0)
    res["name"] = name
    res["bounds"] = cond.get("bounds", "")
    res["wall_s"] = round(time.time() - t0, 2)
    return res


def replay_path(pid: str, record: dict) -> str:
    d = os.path.join(VERIF, "replays", pid)
    os.makedirs(d, exist_ok=True)
    blob = json.dumps(record, sort_keys=True, default=str)
    p = os.path.join(d, hashlib.sha1(blob.encode()).hexdigest()[:12] + ".json")
    with open(p, "w") as f:
        f.write(json.dumps(record, indent=1, sort_keys=True, default=str))
    return p


def matches_known(pid: str, mod: Any, record: dict, known: list[dict]) -> dict | None:
    for k in known:
        if k.get("property") != pid or k.get("status", "open") != "open":
            continue
        fn = getattr(mod, "known_match", None)
        if fn is not None and fn(k, record):
            return k
    return None


def main(argv: list[str] | None = None) -> int:
    ap = argparse.ArgumentParser()
    ap.add_argument("pid")
    ap.add_argument("--tier", default=os.environ.get("VERIF_TIER", "quick"), choices=["quick", "thorough"])
    ap.add_argument("--replay", default=None)
    ap.add_argument("--only", default=None, help="substring filter on condition names (debugging)")
    ap.add_argument("--jobs", type=int, default=int(os.environ.get("VERIF_JOBS", "16")))
    ap.add_argument("--no-evidence", action="store_true")
    a = ap.parse_args(argv)
    pid = a.pid.upper()
    seed = int(os.environ.get("VERIF_SEED", "0") or 0)
    ensure_env()
    if os.path.realpath(sys.executable) != os.path.realpath(PY) and not os.environ.get("VERIF_REEXEC"):
        env = dict(os.environ)
        env["VERIF_REEXEC"] = "1"
        env["PYTHONPATH"] = VERIF + os.pathsep + env.get("PYTHONPATH", "")
        return subprocess.call([PY, "-m", "vlib.runner"] + (argv if argv is not None else sys.argv[1:]), cwd=VERIF, env=env)
    sys.path.insert(0, VERIF)
    module = f"checks.{pid.lower()}"
    mod = importlib.import_module(module)
    known = load_known()

    if a.replay:
        with open(a.replay) as f:
            rec = json.load(f)
        r = mod.replay(rec)
        print(json.dumps(r, indent=1, default=str))
        if r.get("reproduced"):
            k = matches_known(pid, mod, rec, known)
            if k:
                print(f"KNOWN-FINDING: property={pid} {k['what']}")
                return EXIT_OK
            print(f"VIOLATION property={pid} replay={a.replay}")
            return EXIT_VIOLATION
        return EXIT_OK

    t0 = time.time()
    conds = mod.conditions(a.tier, seed)
    if a.only:
        conds = [c for c in conds if a.only in c["name"]]
    import tempfile

    results: list[dict] = []
    with tempfile.TemporaryDirectory(prefix="verif_run_") as td:
        order = sorted(conds, key=lambda c: -c.get("weight", c.get("timeout", 60)))
        with ThreadPoolExecutor(max_workers=max(1, a.jobs)) as ex:
            futs = [ex.submit(_run_one, module, c, a.tier, seed, td) for c in order]
            for f in futs:
                results.append(f.result())
    results.sort(key=lambda r: r["name"])

    violations: list[tuple[dict, str]] = []
    known_hits: dict[str, dict] = {}
    spurious: list[dict] = []
    harness_errors = [r for r in results if r["status"] == HARNESS_ERROR]
    for r in results:
        if r["status"] != REFUTED:
            continue
        real = []
        for cex in r.get("counterexamples", []):
            rec = {"property": pid, "condition": r["name"], **cex}
            try:
                rp = mod.replay(rec)
            except Exception as e:  # replay machinery broke: not a violation
                rp = {"reproduced": False, "detail": f"replay error: {e!r}"}
                harness_errors.append({"name": r["name"], "detail": rp["detail"], "status": HARNESS_ERROR})
            rec["replay"] = rp
            if rp.get("reproduced"):
                k = matches_known(pid, mod, rec, known)
                if k:
                    known_hits[k["id"]] = k
                else:
                    real.append(rec)
            else:
                spurious.append(rec)
        r["counterexamples_total"] = len(r.get("counterexamples", []))
        if real:
            for rec in real[:6]:
                path = replay_path(pid, rec)
                violations.append((rec, path))
            r["violation_replay"] = violations[-1][1]
        else:
            r["status_after_replay"] = "KNOWN" if known_hits else "SPURIOUS"

    # witnesses of open known findings are replayed on every run
    for k in known:
        if k.get("property") == pid and k.get("status", "open") == "open" and k["id"] not in known_hits:
            try:
                rp = mod.replay(k["witness"])
            except Exception as e:
                rp = {"reproduced": False, "detail": f"replay error {e!r}"}
            if rp.get("reproduced"):
                known_hits[k["id"]] = k

    for k in known_hits.values():
        print(f"KNOWN-FINDING: property={pid} {k['what']}")
    for rec, path in violations:
        print(f"VIOLATION property={pid} replay={path}")
        print("  condition:", rec.get("condition"), "| label:", rec.get("label"))
        print("  inputs:", json.dumps(rec.get("inputs"), default=str)[:600])
        print("  replay:", str(rec.get("replay", {}).get("detail"))[:600])
    for r in harness_errors:
        print(f"HARNESS-ERROR condition={r.get('name')}: {str(r.get('detail'))[-1200:]}", file=sys.stderr)

    for r in results:
        if r["status"] != DISCHARGED:
            print(f"  - {r['name']}: {r['status']} paths={r.get('paths')} {str(r.get('detail',''))[:160]!r}", file=sys.stderr)
    wall = time.time() - t0
    if not a.no_evidence and not a.only:
        write_evidence(pid, a.tier, seed, mod, results, violations, spurious, list(known_hits.values()), wall)
    n_dis = sum(1 for r in results if r["status"] == DISCHARGED)
    print(f"[{pid}] tier={a.tier} conditions={len(results)} discharged={n_dis} "
          f"explored={sum(1 for r in results if r['status'] == EXPLORED)} "
          f"inconclusive={sum(1 for r in results if r['status'] == INCONCLUSIVE)} "
          f"refuted={sum(1 for r in results if r['status'] == REFUTED)} spurious={len(spurious)} "
          f"paths={sum(r.get('paths', 0) for r in results)} wall={wall:.1f}s")
    if violations:
        return EXIT_VIOLATION
    if harness_errors:
        return EXIT_HARNESS
    return EXIT_OK


def write_evidence(pid: str, tier: str, seed: int, mod: Any, results: list[dict], violations: list,
                   spurious: list, known_hits: list, wall: float) -> None:
    meta = getattr(mod, "META", {})
    n = len(results)
    dis = sum(1 for r in results if r["status"] == DISCHARGED)
    samples = []
    for r in results[:40]:
        samples.append({"condition": r["name"], "bounds": r.get("bounds"), "status": r["status"],
                        "paths": r.get("paths"), "queries": r.get("queries"), "solver_s": r.get("solver_s"),
                        "wall_s": r.get("wall_s"), "sample": (r.get("samples") or [None])[0]})
    cov = {
        "explanation": meta.get("explanation", "bounded symbolic execution of the real code, decided by z3"),
        "obligations": n,
        "discharged": dis,
        "evaluations": int(sum(r.get("paths", 0) for r in results) + sum(r.get("queries", 0) or 0 for r in results)),
        "distinct_nontrivial": int(sum(r.get("nontrivial", 0) or 0 for r in results)),
        "rule": meta.get("rule", "one evaluation = one symbolic path (a distinct vector of branch decisions over the "
                                 "symbolic inputs) or one solver query; a path is non-trivial when at least one of its "
                                 "branch decisions depends on a symbolic input; distinct by construction of the DFS"),
        "samples": samples,
        "exhaustive": bool(n > 0 and dis == n),
        "paths": int(sum(r.get("paths", 0) for r in results)),
        "solver_queries": int(sum(r.get("queries", 0) or 0 for r in results)),
        "solver_seconds": round(sum(r.get("solver_s", 0) or 0 for r in results), 2),
        "functions_encoded": meta.get("functions", []),
        "bounds": meta.get("bounds", ""),
        "conditions_not_discharged": [
            {"condition": r["name"], "status": r["status"], "detail": str(r.get("detail", ""))[:300]}
            for r in results if r["status"] != DISCHARGED][:60],
        "spurious_counterexamples": [
            {"condition": s.get("condition"), "label": s.get("label"), "inputs": s.get("inputs"),
             "replay": str(s.get("replay", {}).get("detail"))[:200]} for s in spurious][:20],
        "known_findings_reproduced": [k["id"] for k in known_hits],
        "stubs": meta.get("stubs", []),
        "trusted_base": meta.get("trusted_base", ["z3 5.1.0", "CPython 3.12"]),
        "checker_cmd": f"./bin/check {pid} --tier {tier}",
    }
    ev = {
        "property_id": pid,
        "tier": tier,
        "seed": seed,
        "level": meta.get("level", "other"),
        "coverage": cov,
        "assumptions": meta.get("assumptions", []),
        "wall_s": round(wall, 2),
        "violations": len(violations),
    }
    os.makedirs(os.path.join(VERIF, "evidence"), exist_ok=True)
    with open(os.path.join(VERIF, "evidence", f"{pid}.json"), "w") as f:
        json.dump(ev, f, indent=1, default=str)


if __name__ == "__main__":
    sys.exit(main())
