"""fsx - an in-memory OS model against which the REAL body of `plan report` is executed.

The module globals of scriptplan.cli.plan (open, Path, tempfile, os, shutil, sys, secrets, click,
logger, run_scriptplan) are rebound to the objects below for the duration of one run.  Every
environment decision (input class, channel, flags, engine outcome, the set and glob order of the
files the engine leaves, a fault at the i-th work operation) is a z3 variable of the ksym engine;
the real code only ever sees the concrete outcome of the current path.

File contents are real bytes and text I/O goes through the real io.TextIOWrapper, so decoding
errors and universal-newline translation are CPython's own.
"""
from __future__ import annotations

import io
import json
import re
from typing import Any, Optional

import z3

from ksym import engine as K


class Chooser:
    """symbolic environment decisions"""

    def __init__(self, e: Optional[K.Engine], fixed: Optional[dict] = None, max_faults: int = 1, nfault_points: int = 48):
        self.e = e
        self.fixed = fixed  # concrete replay of a recorded scenario
        self.trace: dict[str, Any] = {}
        self.max_faults = max_faults
        self.faults_taken = 0
        self.nops = 0
        if e is not None:
            self.bits = [z3.Bool(f"fault_{i}") for i in range(nfault_points)]
            for i, b in enumerate(self.bits):
                e.inputs[f"fault_{i}"] = b
            e.solver.add(z3.AtMost(*self.bits, max_faults))

    def choice(self, name: str, n: int) -> int:
        if self.fixed is not None:
            v = int(self.fixed.get(name, 0))
        else:
            assert self.e is not None
            v = K.concretize_small(self.e.int_var(name, 0, n - 1), 0, n - 1, name)
        self.trace[name] = v
        return v

    def flag(self, name: str) -> bool:
        return bool(self.choice(name, 2))

    def fault(self, op: str) -> bool:
        i = self.nops
        self.nops += 1
        self.trace.setdefault("all_ops", []).append(op)
        if self.fixed is not None:
            hit = i in self.fixed.get("faults", [])
        else:
            assert self.e is not None
            if i >= len(self.bits):
                self.e.bound_exceeded += 1
                raise K.BoundExceeded("more work operations than fault points")
            hit = self.e.decide(self.bits[i])
        if hit:
            self.trace.setdefault("faults", []).append(i)
            self.trace.setdefault("fault_ops", []).append(op)
        return hit


class World:
    def __init__(self, ch: Chooser, seed: str = "A"):
        self.ch = ch
        self.seed = seed
        self.files: dict[str, bytes] = {}
        self.dirs: set[str] = {"/", "/tmp", "/work", "/in"}
        self.cwd = "/work"
        self.created: list[str] = []   # every file/dir this run created (in order)
        self.touched: list[tuple[str, str]] = []  # (op, path) log
        self.stdout: list[str] = []
        self.stderr: list[str] = []
        self.fds: dict[int, str] = {}
        self.nfd = 100
        self.ntmp = 0
        self.stdin_bytes: bytes = b""
        self.ambiguous_ops: set[int] = set()
        self.input_ops: set[int] = set()  # indices of work operations that read the user's input
        self.exit_code: Optional[int] = None

    # -- fault points ---------------------------------------------------------------------
    def work(self, op: str, path: str = "", is_input: bool = False) -> None:
        idx = self.ch.nops
        if is_input:
            self.input_ops.add(idx)
        if op == "open-read" and "/plan_stdin_" in path:
            self.ambiguous_ops.add(idx)  # re-reading the CLI's own copy of stdin: either 1 or 2 is defensible
        self.touched.append((op, path))
        if self.ch.fault(f"{op}:{path}"):
            raise OSError(5, f"injected I/O fault at {op}", path)

    # -- helpers --------------------------------------------------------------------------
    def exists(self, p: str) -> bool:
        return p in self.files or p in self.dirs

    def listdir(self, d: str) -> list[str]:
        d = d.rstrip("/")
        out = []
        for p in list(self.files) + list(self.dirs):
            if p != d and p.rsplit("/", 1)[0] == d:
                out.append(p)
        return sorted(set(out))

    def create_file(self, p: str, data: bytes = b"") -> None:
        if p not in self.files:
            self.created.append(p)
        self.files[p] = data

    def leftovers(self) -> list[str]:
        return [p for p in self.created if self.exists(p)]


class MStat:
    def __init__(self, size: int):
        self.st_size = size


class MPath:
    """the subset of pathlib.Path that scriptplan.cli.plan uses"""

    world: World  # set by install()

    def __init__(self, *parts: Any):
        s = "/".join(str(x) for x in parts)
        s = re.sub(r"/+", "/", s)
        if not s.startswith("/"):
            s = self.world.cwd + "/" + s
        self.s = s.rstrip("/") or "/"

    def __str__(self) -> str:
        return self.s

    __fspath__ = __str__

    def __repr__(self) -> str:
        return f"MPath({self.s!r})"

    def __truediv__(self, o: Any) -> "MPath":
        return type(self)(self.s, str(o))

    def __eq__(self, o: Any) -> bool:
        return isinstance(o, MPath) and o.s == self.s

    def __hash__(self) -> int:
        return hash(self.s)

    @property
    def name(self) -> str:
        return self.s.rsplit("/", 1)[-1]

    @property
    def stem(self) -> str:
        n = self.name
        return n.rsplit(".", 1)[0] if "." in n[1:] else n

    @property
    def suffix(self) -> str:
        n = self.name
        return "." + n.rsplit(".", 1)[1] if "." in n[1:] else ""

    @property
    def parent(self) -> "MPath":
        return type(self)(self.s.rsplit("/", 1)[0] or "/")

    @classmethod
    def cwd(cls) -> "MPath":
        return cls(cls.world.cwd)

    def exists(self) -> bool:  # never raises (pathlib returns False on errors)
        return self.world.exists(self.s)

    def is_file(self) -> bool:
        return self.s in self.world.files

    def is_dir(self) -> bool:
        return self.s in self.world.dirs

    def stat(self) -> MStat:
        # not a fault point: exists()/is_file() on the same path have just succeeded through the same system call
        self.world.touched.append(("stat", self.s))
        if self.s in self.world.files:
            return MStat(len(self.world.files[self.s]))
        if self.s in self.world.dirs:
            return MStat(4096)
        raise FileNotFoundError(2, "No such file or directory", self.s)

    def glob(self, pattern: str) -> list["MPath"]:
        self.world.work("glob", self.s)
        rx = re.compile("^" + re.escape(pattern).replace(r"\*", ".*") + "$")
        names = [p for p in self.world.listdir(self.s) if rx.match(p.rsplit("/", 1)[-1])]
        # directory order is arbitrary: the order is an environment decision
        out: list[str] = []
        pool = list(names)
        k = 0
        while pool:
            i = self.world.ch.choice(f"globorder_{pattern}_{k}", len(pool)) if len(pool) > 1 else 0
            out.append(pool.pop(i))
            k += 1
        return [type(self)(p) for p in out]

    def open(self, mode: str = "r", **kw: Any) -> Any:
        return make_open(self.world)(self.s, mode, **kw)

    def read_text(self, encoding: Optional[str] = None, **kw: Any) -> str:
        with self.open("r", encoding=encoding) as f:
            return f.read()

    def read_bytes(self) -> bytes:
        with self.open("rb") as f:
            return f.read()

    def write_text(self, data: str, encoding: Optional[str] = None, **kw: Any) -> int:
        with self.open("w", encoding=encoding) as f:
            return f.write(data)

    def write_bytes(self, data: bytes) -> int:
        with self.open("wb") as f:
            return f.write(data)

    def mkdir(self, parents: bool = False, exist_ok: bool = False, **kw: Any) -> None:
        MOs(self.world).makedirs(self.s, exist_ok=exist_ok)

    def unlink(self, missing_ok: bool = False) -> None:  # cleanup operation: does not fail
        if missing_ok and self.s not in self.world.files:
            return
        self._unlink()

    def _unlink(self) -> None:
        self.world.touched.append(("unlink", self.s))
        if self.s not in self.world.files:
            raise FileNotFoundError(2, "No such file or directory", self.s)
        del self.world.files[self.s]


class _Writer(io.BytesIO):
    def __init__(self, world: World, path: str):
        super().__init__()
        self._w, self._p = world, path

    def close(self) -> None:
        if not self.closed:
            self._w.files[self._p] = self.getvalue()
        super().close()


def make_open(world: World) -> Any:
    def mopen(path: Any, mode: str = "r", encoding: Optional[str] = None, newline: Optional[str] = None, **kw: Any) -> Any:
        p = str(path) if not isinstance(path, MPath) else path.s
        if not p.startswith("/"):
            p = world.cwd + "/" + p
        is_in = p.startswith("/in/") or p == getattr(world, "stdin_temp", None)
        if "r" in mode:
            # "unreadable input" = the first read of the user's file fails; later re-reads are internal work
            first = p.startswith("/in/") and not getattr(world, "input_read_done", False)
            world.work("open-read", p, is_input=first)
            if first:
                world.input_read_done = True  # type: ignore[attr-defined]
            if p in world.dirs:
                raise IsADirectoryError(21, "Is a directory", p)
            if p not in world.files:
                raise FileNotFoundError(2, "No such file or directory", p)
            raw = io.BytesIO(world.files[p])
            if "b" in mode:
                return raw
            return io.TextIOWrapper(raw, encoding=encoding or "utf-8", newline=newline)
        world.work("open-write", p)
        parent = p.rsplit("/", 1)[0] or "/"
        if parent not in world.dirs:
            raise FileNotFoundError(2, "No such file or directory", p)
        world.create_file(p, b"")
        w = _Writer(world, p)
        if "b" in mode:
            return w
        return io.TextIOWrapper(w, encoding=encoding or "utf-8", newline=newline, write_through=False)

    return mopen


class MTempfile:
    def __init__(self, world: World):
        self.w = world

    def mkstemp(self, suffix: str = "", prefix: str = "tmp", dir: Optional[str] = None) -> tuple[int, str]:
        self.w.work("mkstemp", prefix)
        self.w.ntmp += 1
        p = f"{dir or '/tmp'}/{prefix}{self.w.seed}{self.w.ntmp}{suffix}"
        self.w.create_file(p, b"")
        self.w.nfd += 1
        self.w.fds[self.w.nfd] = p
        return self.w.nfd, p

    def mkdtemp(self, suffix: str = "", prefix: str = "tmp", dir: Optional[str] = None) -> str:
        self.w.work("mkdtemp", prefix)
        self.w.ntmp += 1
        p = f"{dir or '/tmp'}/{prefix}{self.w.seed}{self.w.ntmp}{suffix}"
        self.w.dirs.add(p)
        self.w.created.append(p)
        return p


class MOs:
    def __init__(self, world: World):
        self.w = world
        import os as _os

        self.path = _os.path
        self.environ = {}

    def fdopen(self, fd: int, mode: str = "r", **kw: Any) -> Any:
        p = self.w.fds[fd]
        self.w.work("fdopen", p)
        wr = _Writer(self.w, p)
        if "b" in mode:
            return wr
        return io.TextIOWrapper(wr, encoding="utf-8")

    def close(self, fd: int) -> None:
        self.w.fds.pop(fd, None)

    def makedirs(self, p: Any, exist_ok: bool = False) -> None:
        s = str(p)
        self.w.work("makedirs", s)
        parts = s.strip("/").split("/")
        cur = ""
        for x in parts:
            cur += "/" + x
            if cur not in self.w.dirs:
                self.w.dirs.add(cur)
                self.w.created.append(cur)

    def getcwd(self) -> str:
        return self.w.cwd


class MShutil:
    def __init__(self, world: World):
        self.w = world

    def rmtree(self, p: Any) -> None:  # cleanup operation: does not fail
        s = str(p)
        self.w.touched.append(("rmtree", s))
        for f in [f for f in self.w.files if f.startswith(s + "/")]:
            del self.w.files[f]
        for d in [d for d in self.w.dirs if d == s or d.startswith(s + "/")]:
            self.w.dirs.discard(d)


class MBuf:
    """sys.stdin.buffer / sys.stdout.buffer"""

    def __init__(self, world: World, kind: str):
        self.w, self.kind = world, kind

    def read(self, *a: Any) -> bytes:
        self.w.work("stdin-read", "<stdin>", is_input=True)
        return self.w.stdin_bytes

    def write(self, b: bytes) -> int:
        (self.w.stdout if self.kind == "out" else self.w.stderr).append(b.decode("utf-8", "replace"))
        return len(b)

    def flush(self) -> None:
        pass


class MTextOut:
    def __init__(self, world: World, kind: str):
        self.w, self.kind = world, kind
        self.buffer = MBuf(world, kind)

    def write(self, s: str) -> int:
        (self.w.stdout if self.kind == "out" else self.w.stderr).append(s)
        return len(s)

    def flush(self) -> None:
        pass


class MTextIn:
    def __init__(self, world: World):
        self.w = world
        self.buffer = MBuf(world, "in")

    def read(self, *a: Any) -> str:
        self.w.work("stdin-read", "<stdin>", is_input=True)
        # CPython opens sys.stdin with newline="\n" on POSIX: no newline translation
        return io.TextIOWrapper(io.BytesIO(self.w.stdin_bytes), encoding="utf-8", newline="\n").read()


class MSys:
    def __init__(self, world: World):
        self.w = world
        self.stdin = MTextIn(world)
        self.stdout = MTextOut(world, "out")
        self.stderr = MTextOut(world, "err")
        self.argv = ["plan"]

    def exit(self, code: Any = 0) -> None:
        self.w.exit_code = code if isinstance(code, int) else 1
        raise SystemExit(code)


class MClick:
    def __init__(self, world: World):
        self.w = world

    def echo(self, message: Any = None, file: Any = None, nl: bool = True, err: bool = False, color: Any = None) -> None:
        if not err:
            self.w.work("stdout-write", "<stdout>")
        (self.w.stderr if err else self.w.stdout).append(str(message) + ("\n" if nl else ""))

    def secho(self, message: Any = None, file: Any = None, nl: bool = True, err: bool = False, color: Any = None, **styles: Any) -> None:
        self.echo(message, file=file, nl=nl, err=err)


class MLogger:
    def __init__(self, world: World):
        self.w = world

    def _log(self, lvl: str, msg: str, *args: Any, **kw: Any) -> None:
        try:
            text = msg % args if args else msg
        except Exception:  # noqa: BLE001
            text = msg
        self.w.stderr.append(f"{lvl}: {text}\n")

    def debug(self, msg: str, *a: Any, **k: Any) -> None:
        self._log("DEBUG", msg, *a)

    def info(self, msg: str, *a: Any, **k: Any) -> None:
        self._log("INFO", msg, *a)

    def warning(self, msg: str, *a: Any, **k: Any) -> None:
        self._log("WARNING", msg, *a)

    def error(self, msg: str, *a: Any, **k: Any) -> None:
        self._log("ERROR", msg, *a)

    def exception(self, msg: str, *a: Any, **k: Any) -> None:
        self._log("ERROR", msg, *a)


class MSecrets:
    def __init__(self, world: World):
        self.w = world
        self.n = 0

    def token_hex(self, n: int = 8) -> str:
        self.n += 1
        return (self.w.seed.lower().encode().hex() + f"{self.n:02d}" + "0" * 2 * n)[: 2 * n]


AUTO_MARK = "AUTO"


def make_engine(world: World, outcome: int, user_reports: list[tuple[str, str]], emit_auto: bool = True) -> Any:
    """stub of scriptplan.cli.main.run_scriptplan: reads the combined .tjp the CLI wrote, finds the auto report
    definition in it, and leaves report files in the output directory the way Report._get_output_path names them
    (<report name>.<format>); outcome 0 = success, 1 = failure with a message"""

    def run_scriptplan(tjp_file: str, output_dir: Optional[str] = None, report_ids: Optional[list] = None) -> tuple[bool, Optional[str]]:
        # the real run_scriptplan catches every Exception and returns (False, message)
        try:
            return _run(tjp_file, output_dir, report_ids)
        except OSError as e:
            return (False, str(e))

    def _path(od: str, name: str, fmt: str) -> str:
        # Report._get_output_path: Path(output_dir) / f"{name}.{ext}"  (an absolute name replaces the directory, '..' climbs out of it)
        import posixpath

        return posixpath.normpath(name + "." + fmt if name.startswith("/") else od + "/" + name + "." + fmt)

    def _run(tjp_file: str, output_dir: Optional[str] = None, report_ids: Optional[list] = None) -> tuple[bool, Optional[str]]:
        world.work("engine-read", tjp_file)
        if tjp_file not in world.files:
            return (False, f"Error: file not found {tjp_file}")
        text = world.files[tjp_file].decode("utf-8", "replace")
        world.engine_input = text  # type: ignore[attr-defined]
        if outcome == 1:
            return (False, "Error: scheduling failed (stub)")
        m = re.search(r'taskreport\s+(plan_auto_\w+)\s+"([^"]+)"\s*\{\s*formats\s+(\w+)', text)
        od = (output_dir or world.cwd).rstrip("/")
        if m and emit_auto:
            rid, name, fmt = m.groups()
            body = (json.dumps({"report_id": rid, "columns": ["id", "start", "end"], "data": [{"id": AUTO_MARK, "start": "s", "end": "e"}]}, indent=2)
                    if fmt == "json" else f"Id,Start,End\n{AUTO_MARK},s,e\n")
            world.work("engine-write", _path(od, name, fmt))
            world.create_file(_path(od, name, fmt), body.encode())
        for name, fmt in user_reports:
            if report_ids is not None and name not in report_ids:
                continue  # the engine generates only the requested reports (--report <id>)
            body = (json.dumps({"report_id": name, "columns": ["name"], "data": [{"name": "USER"}]}, indent=2)
                    if fmt == "json" else "Name\nUSER\n")
            dest = _path(od, name, fmt)
            world.work("engine-write", dest)
            parent = dest.rsplit("/", 1)[0] or "/"
            if parent not in world.dirs:  # os.makedirs(output_path.parent, exist_ok=True)
                cur = ""
                for x in parent.strip("/").split("/"):
                    cur += "/" + x
                    if cur not in world.dirs:
                        world.dirs.add(cur)
                        world.created.append(cur)
            world.create_file(dest, body.encode())
        return (True, None)

    return run_scriptplan


def install(world: World, plan_module: Any, engine: Any) -> K.patched_globals:
    P = type("MPathW", (MPath,), {"world": world})
    world.Path = P  # type: ignore[attr-defined]
    return K.patched_globals(
        plan_module,
        open=make_open(world), Path=P, tempfile=MTempfile(world), os=MOs(world), shutil=MShutil(world),
        sys=MSys(world), click=MClick(world), logger=MLogger(world), secrets=MSecrets(world), run_scriptplan=engine,
    )


class Ctx:
    def __init__(self, verbose: bool, quiet: bool):
        self.obj = {"verbose": verbose, "quiet": quiet}
