"""Scenarios, oracle and drivers (modelled run / real replay) for the `plan report` contract."""
from __future__ import annotations

import hashlib
import json
import os
import shutil
import subprocess
import sys
import tempfile
from typing import Any, Optional

from ksym import engine as K

from . import model as M

PROJECT = ('project p "P" 2025-01-06 +2w {\n  timezone "UTC"\n}\nresource r "R" {}\n'
           'task a "A" {\n  effort 2d\n  allocate r\n}\ntask b "B" {\n  effort 1d\n  allocate r\n  depends !a\n}\n')
USER_REPORT = 'taskreport {rid} "{name}" {{\n  formats {fmt}\n  columns name\n}}\n'

CLASSES = ["plain", "crlf", "missing", "directory", "empty", "blank", "invalid_utf8"]
USER_SETS = [[], [("a_user", "json")], [("zz_user", "json")], [("a_user", "csv")], [("a_user", "json"), ("zz_user", "csv")],
             [("a_user", "json"), ("zz_user", "json")],
             # report names are file names: a sub-directory, a path climbing out of the output directory, an absolute path
             [("sub/dir/rep", "csv")], [("../escaped_report", "json")], [("/work/abs_report", "json")]]


def content(cls: str, users: list[tuple[str, str]], absroot: str = "/work") -> Optional[bytes]:
    users = [(absroot + n[len("/work"):] if n.startswith("/work/") else n, f) for n, f in users]
    import re as _re

    text = PROJECT + "".join(USER_REPORT.format(rid=_re.sub(r"\W", "_", n).strip("_") or "r", name=n, fmt=f) for n, f in users)
    if cls == "plain":
        return text.encode()
    if cls == "crlf":
        return text.replace("\n", "\r\n").encode()
    if cls == "invalid_utf8":
        return text.encode() + b"# caf\xe9 \xff\n"
    if cls == "empty":
        return b""
    if cls == "blank":
        return b"  \n\t\n"
    return None


def pick_scenario(ch: M.Chooser, tier: str, with_faults: bool = True) -> dict:
    scn: dict[str, Any] = {}
    scn["channel"] = ["file", "stdin", "stdin-dash"][ch.choice("channel", 3)]
    classes = CLASSES if scn["channel"] == "file" else [c for c in CLASSES if c not in ("missing", "directory")]
    scn["cls"] = classes[ch.choice("cls", len(classes))]
    scn["fmt"] = ["json", "csv"][ch.choice("fmt", 2)]
    # -o/--output: none | a new file | an existing file (with and without --force)
    scn["output"] = [None, "new", "existing", "existing-force"][ch.choice("output", 4)]
    scn["verbose"] = ch.flag("verbose") if scn["output"] is None else False
    scn["quiet"] = ch.flag("quiet") if scn["output"] is None else False
    scn["outcome"] = ch.choice("outcome", 2)
    if scn["cls"] == "blank":
        scn["outcome"] = 1  # a project text without content is rejected by the engine (parse error)
    scn["users"] = USER_SETS[ch.choice("users", len(USER_SETS))]
    scn["emit_auto"] = True if tier == "quick" else not ch.flag("no_auto")
    return scn


def expected(scn: dict, fault_ops: list[int], input_ops: set[int], ambiguous_ops: set[int] = frozenset()) -> dict:
    """the documented contract, independent of the code"""
    cls, chan = scn["cls"], scn["channel"]
    if fault_ops and all(i in ambiguous_ops for i in fault_ops):
        return {"codes": {1, 2}}
    bad_input = cls in ("missing", "directory", "empty") or (chan != "file" and cls == "blank")
    input_fault = any(i in input_ops for i in fault_ops)
    other_fault = any(i not in input_ops for i in fault_ops)
    if scn.get("output") == "existing" and not bad_input:
        # refusing to overwrite may legitimately be reported before or after anything else goes wrong
        base = {2, 3}
        if input_fault:
            base |= {1}
        if fault_ops or cls in ("invalid_utf8", "blank") or scn["outcome"] == 1:
            return {"codes": base | {2}}
    if bad_input or (input_fault and not other_fault):
        return {"codes": {1}}
    if input_fault and other_fault:
        return {"codes": {1, 2}}
    if other_fault:
        return {"codes": {2}}
    if cls == "invalid_utf8":
        return {"codes": {1, 2}}
    if cls == "blank":  # a file of blanks is not empty: it is a project without content -> generation fails
        return {"codes": {2}}
    if scn["outcome"] == 1 or not scn.get("emit_auto", True):
        return {"codes": {2, 3} if scn.get("output") == "existing" else {2}}
    if scn.get("output") == "existing":
        return {"codes": {2, 3}}  # the help text documents 3, the error class used maps to 2
    return {"codes": {0}}


def judge_c19(scn: dict, obs: dict, exp: dict, input_bytes: Optional[bytes]) -> list[str]:
    f: list[str] = []
    code = obs["exit_code"]
    if obs.get("crash"):
        f.append(f"uncaught {obs['crash']}")
        return f
    if code not in exp["codes"]:
        f.append(f"exit code {code}, contract says {sorted(exp['codes'])}")
    out = "".join(obs["stdout"])
    if code == 0 and scn.get("output"):
        if out.strip():
            f.append("report written to stdout although -o was given")
        out = obs.get("output_file")
        if out is None:
            f.append("exit 0 but the -o file was not written")
            return f
    if code != 0:
        if out.strip():
            f.append("non-report text on stdout on a failing run")
        if not "".join(obs["stderr"]).strip():
            f.append("failure without a diagnostic on stderr")
        return f
    if scn["fmt"] == "json":
        try:
            d = json.loads(out)
        except Exception as e:  # noqa: BLE001
            f.append(f"stdout is not one well-formed JSON document: {e}")
            return f
        for k in ("data", "columns", "report_id"):
            if k not in d:
                f.append(f"JSON lacks {k!r}")
        if input_bytes is not None and d.get("report_id") != hashlib.sha256(input_bytes).hexdigest():
            f.append("report_id is not the SHA-256 of the input bytes")
        cols = [c.lower() if isinstance(c, str) else str(c.get("id", c)).lower() for c in d.get("columns", [])]
        if cols != ["id", "start", "end"]:
            f.append(f"emitted report is not the id/start/end report (columns {d.get('columns')})")
    else:
        first = out.split("\n", 1)[0].replace('"', "").strip().lower()
        if first.split(",") != ["id", "start", "end"]:
            f.append(f"emitted CSV is not the id/start/end report (header {first!r})")
    return f


def judge_c20(scn: dict, obs: dict) -> list[str]:
    f = []
    if obs["leftovers"]:
        f.append(f"left behind: {obs['leftovers']}")
    if obs["outside"]:
        f.append(f"created outside its own temporary paths: {obs['outside']}")
    return f


# ---- modelled run -----------------------------------------------------------------------

def model_run(ch: M.Chooser, scn: dict, seed: str = "A", world: Optional[M.World] = None) -> tuple[dict, M.World, Optional[bytes]]:
    import scriptplan.cli.plan as plan

    w = world or M.World(ch, seed)
    w.seed = seed
    created0 = len(w.created)
    touched0 = len(w.touched)
    w.stdout, w.stderr = [], []
    data = content(scn["cls"], scn["users"])
    arg: Optional[str]
    if scn["channel"] == "file":
        arg = "/in/proj.tjp"
        if scn["cls"] == "directory":
            w.dirs.add(arg)
        elif data is not None:
            w.files[arg] = data
    else:
        arg = None if scn["channel"] == "stdin" else "-"
        w.stdin_bytes = data or b""
    engine = M.make_engine(w, scn["outcome"], scn["users"], scn.get("emit_auto", True))
    fn = plan.report.callback.__wrapped__
    obs: dict[str, Any] = {"crash": None}
    out_arg = None
    if scn.get("output"):
        out_arg = "/work/out." + scn["fmt"]
        if scn["output"].startswith("existing"):
            w.files[out_arg] = b"OLD"
    with M.install(w, plan, engine):
        try:
            fn(M.Ctx(scn["verbose"], scn["quiet"]), arg, scn["fmt"] == "csv", out_arg, scn.get("output") == "existing-force")
            obs["exit_code"] = None
            obs["crash"] = "return without exit"
        except SystemExit as e:
            obs["exit_code"] = e.code if isinstance(e.code, int) else (0 if e.code is None else 1)
        except (K.BoundExceeded, K.Infeasible, K.HarnessError):
            raise
        except Exception as e:  # noqa: BLE001
            obs["exit_code"] = 1
            obs["crash"] = f"{type(e).__name__}: {e}"
    mine = w.created[created0:]
    temps = [p for p in mine if p.startswith("/tmp/plan_")]
    obs["stdout"], obs["stderr"] = list(w.stdout), list(w.stderr)
    obs["leftovers"] = [p for p in mine if w.exists(p) and p != out_arg]
    obs["outside"] = [p for p in mine if not any(p == t or p.startswith(t + "/") for t in temps) and p != out_arg]
    if out_arg and out_arg in w.files and w.files[out_arg] != b"OLD":
        obs["output_file"] = w.files[out_arg].decode("utf-8", "replace")
    if scn.get("output") == "existing" and w.files.get(out_arg) != b"OLD":
        obs["overwrote"] = True
    obs["footprint"] = sorted({p for op, p in w.touched[touched0:] if op in ("open-write", "fdopen", "engine-write", "unlink", "rmtree")} | set(mine))
    obs["reads"] = sorted({p for op, p in w.touched[touched0:] if op in ("open-read", "engine-read", "stat", "glob")})
    return obs, w, data


# ---- real replay ------------------------------------------------------------------------

RUNNER = r'''
import json, os, sys
scn = json.loads(sys.argv[1])
faults = scn.get("real_faults", {})   # {"open-read": [ordinals], ...}
import scriptplan.cli.plan as plan
import builtins, tempfile, pathlib
counts = {}
def hit(kind):
    counts[kind] = counts.get(kind, 0) + 1
    if counts[kind] - 1 in faults.get(kind, []):
        raise OSError(5, "injected I/O fault at " + kind)
_open = builtins.open
def fopen(path, mode="r", *a, **k):
    hit("open-read" if "r" in mode else "open-write")
    return _open(path, mode, *a, **k)
plan.open = fopen
class T:
    def __getattr__(self, n): return getattr(tempfile, n)
    def mkstemp(self, *a, **k):
        hit("mkstemp"); return tempfile.mkstemp(*a, **k)
    def mkdtemp(self, *a, **k):
        hit("mkdtemp"); return tempfile.mkdtemp(*a, **k)
plan.tempfile = T()
_fdopen = os.fdopen
class O:
    def __getattr__(self, n): return getattr(os, n)
    def fdopen(self, fd, *a, **k):
        hit("fdopen")
        return _fdopen(fd, *a, **k)
plan.os = O()
_glob = pathlib.Path.glob
_stat = pathlib.Path.stat
class P(type(pathlib.Path())):
    def glob(self, pat):
        hit("glob"); return _glob(self, pat)
plan.Path = P
if "stdin-read" in faults:
    class S:
        buffer = None
        def read(self, *a): hit("stdin-read"); return sys.__stdin__.read()
    class B:
        def read(self, *a): hit("stdin-read"); return sys.__stdin__.buffer.read()
    s = S(); s.buffer = B()
    class SY:
        def __getattr__(self, n): return getattr(sys, n)
        stdin = s
    plan.sys = SY()
args = ["report"] + (["--csv"] if scn["fmt"] == "csv" else [])
if scn.get("verbose"): args = ["--verbose"] + args
if scn.get("quiet"): args = ["--quiet"] + args
if scn.get("output"):
    args += ["--output", scn["real_out"]]
    if scn["output"] == "existing-force": args.append("--force")
if scn["channel"] == "file": args.append(scn["real_path"])
elif scn["channel"] == "stdin-dash": args.append("-")
plan.cli.main(args=args, prog_name="plan")
'''


def real_run(scn: dict, real_faults: Optional[dict] = None, py: str = sys.executable) -> tuple[dict, Optional[bytes]]:
    """run the REAL `plan` entry point in a subprocess with private TMPDIR and cwd"""
    root = tempfile.mkdtemp(prefix="verif_fsx_")
    try:
        tmpd, cwd, ind = (os.path.join(root, x) for x in ("tmp", "cwd", "in"))
        for d in (tmpd, cwd, ind):
            os.makedirs(d)
        absroot = os.path.join(root, "abs")
        data = content(scn["cls"], scn["users"], absroot)
        real_path = os.path.join(ind, "proj.tjp")
        if scn["channel"] == "file":
            if scn["cls"] == "directory":
                os.makedirs(real_path)
            elif data is not None:
                with open(real_path, "wb") as f:
                    f.write(data)
        s2 = dict(scn)
        s2["real_path"] = real_path
        real_out = os.path.join(root, "out", "out." + scn["fmt"])
        os.makedirs(os.path.dirname(real_out))
        s2["real_out"] = real_out
        if str(scn.get("output") or "").startswith("existing"):
            with open(real_out, "wb") as f:
                f.write(b"OLD")
        s2["real_faults"] = real_faults or {}
        env = dict(os.environ)
        env["TMPDIR"] = tmpd
        env.pop("VERIF_REEXEC", None)
        p = subprocess.run([py, "-c", RUNNER, json.dumps(s2)], cwd=cwd, env=env, capture_output=True,
                           input=(data or b"") if scn["channel"] != "file" else b"", timeout=120)
        left = sorted(os.listdir(tmpd))
        out_cwd = sorted(os.listdir(cwd)) + (sorted(os.listdir(absroot)) if os.path.isdir(absroot) else [])
        obs = {"exit_code": p.returncode, "stdout": [p.stdout.decode("utf-8", "replace")], "stderr": [p.stderr.decode("utf-8", "replace")],
               "leftovers": left, "outside": out_cwd, "crash": None}
        if scn.get("output") and os.path.exists(real_out):
            with open(real_out, "rb") as f:
                ob = f.read()
            if ob != b"OLD":
                obs["output_file"] = ob.decode("utf-8", "replace")
        if b"Traceback (most recent call last)" in p.stderr and p.returncode == 1:
            obs["crash"] = p.stderr.decode("utf-8", "replace").strip().splitlines()[-1]
        return obs, data
    finally:
        shutil.rmtree(root, ignore_errors=True)


def real_faults_from_trace(trace: dict) -> Optional[dict]:
    """map model fault points to the n-th real call of the same kind; None if not realisable"""
    ops = trace.get("fault_ops", [])
    allops = trace.get("all_ops", [])
    fl = trace.get("faults", [])
    out: dict[str, list[int]] = {}
    for idx in fl:
        kind = allops[idx].split(":", 1)[0]
        if kind in ("engine-read", "engine-write", "stat", "stdout-write"):
            return None
        ordinal = sum(1 for o in allops[:idx] if o.split(":", 1)[0] == kind)
        out.setdefault(kind, []).append(ordinal)
    return out
